#!/bin/bash
# run every claimed check of MANIFEST.json one after the other (tier from $1, default quick); summary on stdout
cd "$(dirname "$0")"
TIER=${1:-quick}
for p in $(python3 -c "import json;print(' '.join(c['property_id'] for c in json.load(open('MANIFEST.json'))['checks']))"); do
  /usr/bin/time -f "%e s" ./check $p --tier $TIER > /tmp/run_all_$p.log 2>&1
  echo "$p exit=$? $(grep -h '^\[C[0-9]*\] \(HELD\|VIOLATED\|INCONCLUSIVE\)' /tmp/run_all_$p.log | tail -1) $(tail -1 /tmp/run_all_$p.log)"
done
