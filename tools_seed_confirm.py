#!/usr/bin/env python3
"""Confirm a seeded change in a scratch worktree: demo passes without it, fails with it, the code imports and the
pinned test suite keeps exactly its baseline passes.  usage: tools_seed_confirm.py <patch.diff> <demo.py> <out.json>"""
import json, os, subprocess, sys, time, xml.etree.ElementTree as ET

patch, demo, out = map(os.path.abspath, sys.argv[1:4])
wt = f"/tmp/confirm_{os.getpid()}"
env = dict(os.environ, OMP_NUM_THREADS="1", OPENBLAS_NUM_THREADS="1", MKL_NUM_THREADS="1", MPLBACKEND="Agg", PYTHONDONTWRITEBYTECODE="1")
def sh(cmd, **k):
    return subprocess.run(cmd, shell=True, capture_output=True, text=True, env=env, **k)
res = {"patch": patch, "demo": demo}
sh(f"git -C /repo worktree add -f --detach {wt} HEAD")
try:
    import shutil
    shutil.copy(demo, os.path.join(wt, "_demo.py"))
    r = sh("/venv/bin/python _demo.py", cwd=wt, timeout=1800)
    res["demo_without_patch_exit"] = r.returncode
    a = sh(f"git -C {wt} apply {patch}")
    res["applies"] = a.returncode == 0
    r = sh("/venv/bin/python _demo.py", cwd=wt, timeout=1800)
    res["demo_with_patch_exit"] = r.returncode
    res["demo_with_patch_tail"] = (r.stdout + r.stderr)[-600:]
    t0 = time.time()
    sh(f"/venv/bin/python -m pytest -q -p no:cacheprovider --timeout=900 --continue-on-collection-errors --junitxml={wt}/_junit.xml", cwd=wt, timeout=4000)
    base = set(json.load(open('/root/.vp/BASELINE.json'))['stable_pass'])
    passed = set()
    for tc in ET.parse(f"{wt}/_junit.xml").iter('testcase'):
        if not any(c.tag in ('failure', 'error', 'skipped') for c in tc):
            passed.add(tc.get('classname') + '::' + tc.get('name'))
    res["tests_passed"] = len(passed)
    res["baseline_missing"] = sorted(base - passed)
    res["suite_s"] = round(time.time() - t0)
    res["confirmed"] = bool(res["demo_without_patch_exit"] == 0 and res["applies"] and res["demo_with_patch_exit"] != 0 and not res["baseline_missing"])
finally:
    sh(f"git -C /repo worktree remove --force {wt}")
json.dump(res, open(out, "w"), indent=1)
print(json.dumps({k: v for k, v in res.items() if k != "demo_with_patch_tail"}))
