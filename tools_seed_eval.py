#!/usr/bin/env python3
"""Apply a seeded change to /repo, run the named checks against it, undo it, record what was caught.

usage: tools_seed_eval.py seeded/<id> [--tier quick|thorough] [--props C07,C01] [--only substr]
Never leaves /repo modified: the patch is reverted in a finally block and `git status` is verified clean.
"""
import argparse
import json
import os
import subprocess
import sys
import time

VERIF = os.path.dirname(os.path.abspath(__file__))


def sh(cmd, **k):
    return subprocess.run(cmd, shell=True, capture_output=True, text=True, **k)


def main():
    ap = argparse.ArgumentParser()
    ap.add_argument("seed_dir")
    ap.add_argument("--tier", default="quick")
    ap.add_argument("--props")
    ap.add_argument("--only")
    ap.add_argument("--timeout", type=int, default=7200)
    ap.add_argument("--worktree", action="store_true", help="evaluate in a scratch worktree (VERIF_REPO) instead of patching /repo")
    a = ap.parse_args()
    sd = os.path.abspath(a.seed_dir)
    meta = json.load(open(os.path.join(sd, "meta.json")))
    props = a.props.split(",") if a.props else meta["check_with"]
    patch = os.path.join(sd, "patch.diff")
    if a.worktree:
        wt = f"/tmp/seedwt_{os.path.basename(sd)}_{os.getpid()}"
        sh(f"git -C /repo worktree add -f --detach {wt} HEAD")
        target, env = wt, dict(os.environ, VERIF_REPO=wt)
    else:
        assert sh("git -C /repo status --porcelain -uno").stdout.strip() == "", "/repo is not clean"
        target, env = "/repo", dict(os.environ)
    r = sh(f"git -C {target} apply --check {patch}")
    if r.returncode:
        print("patch does not apply:", r.stderr)
        if a.worktree:
            sh(f"git -C /repo worktree remove --force {wt}")
        return 2
    results = {}
    try:
        sh(f"git -C {target} apply {patch}")
        for p in props:
            t0 = time.time()
            cmd = f"./check {p} --tier {a.tier} --no-evidence" + (f" --only '{a.only}'" if a.only else "")
            try:
                rr = subprocess.run(cmd, shell=True, cwd=VERIF, capture_output=True, text=True, timeout=a.timeout, env=env)
                out, code = rr.stdout + rr.stderr, rr.returncode
            except subprocess.TimeoutExpired:
                out, code = "TIMEOUT", 124
            viol = [l for l in out.splitlines() if l.startswith("VIOLATION")]
            jobs = [l.strip() for l in out.splitlines() if "[job]" in l and "violations=0" not in l]
            errs = [l[:300] for l in out.splitlines() if l.startswith(("HARNESS-ERROR", "INCONCLUSIVE", "VACUOUS"))]
            results[p] = {"tier": a.tier, "exit": code, "caught": code == 1 and bool(viol), "n_violation_lines": len(viol),
                          "violating_jobs": jobs[:8], "other": errs[:5], "wall_s": round(time.time() - t0, 1)}
            print(f"{os.path.basename(sd)} {p} {a.tier}: exit={code} caught={results[p]['caught']} ({len(viol)} VIOLATION lines) {results[p]['wall_s']}s")
            for j in jobs[:4]:
                print("    ", j[:200])
            for e in errs[:3]:
                print("    ", e[:200])
    finally:
        if a.worktree:
            sh(f"git -C /repo worktree remove --force {wt}")
        else:
            sh("git -C /repo checkout -- .")
            left = sh("git -C /repo status --porcelain -uno").stdout.strip()
            if left:
                print("WARNING: /repo not clean after revert:", left)
    ev = os.path.join(sd, "eval.json")
    old = json.load(open(ev)) if os.path.exists(ev) else {}
    for p, v in results.items():
        old[f"{p}:{a.tier}" + (f":{a.only}" if a.only else "")] = v
    json.dump(old, open(ev, "w"), indent=1)
    return 0


if __name__ == "__main__":
    sys.exit(main())
