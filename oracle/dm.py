"""
Oracle O8 (DESIGN 3): textbook density-matrix semantics with exact arithmetic.  Independent of graphiq.

Cells are polymorphic: python complex / float (concrete replay) or symnp SymComplex / SymReal (symbolic run).
Qubit 0 is the most significant tensor factor (rho index = q0 q1 ... q_{n-1} in binary), which is the documented
"photons first, then emitters" register order mapped onto numpy.kron order.

Unitaries are written as  U = sqrt(scale2) * M  with M over the Gaussian integers, so  U rho U^dagger =
scale2 * M rho M^dagger  is exact rational arithmetic (no sqrt(2) anywhere).
"""
from __future__ import annotations

from fractions import Fraction

import numpy as np

from symnp.sym import SymComplex, SymReal, b_and, is_sym

I = 1j
GATES = {  # name -> (scale2, M)
    "I": (Fraction(1), [[1, 0], [0, 1]]),
    "H": (Fraction(1, 2), [[1, 1], [1, -1]]),
    "P": (Fraction(1), [[1, 0], [0, I]]),
    "P_dag": (Fraction(1), [[1, 0], [0, -I]]),
    "X": (Fraction(1), [[0, 1], [1, 0]]),
    "Y": (Fraction(1), [[0, -I], [I, 0]]),
    "Z": (Fraction(1), [[1, 0], [0, -1]]),
}


def conj(x):
    return x.conjugate() if hasattr(x, "conjugate") else x


def scal(c, x):
    """constant (int / complex with integer parts / Fraction) times cell"""
    if c == 0:
        return 0
    if isinstance(c, Fraction):
        if isinstance(x, (SymComplex, SymReal)):
            return _frac_mul(x, c)
        return x * (c.numerator / c.denominator)
    return c * x


def _frac_mul(x, fr):
    import z3
    q = z3.Q(fr.numerator, fr.denominator)
    if isinstance(x, SymComplex):
        return SymComplex(x.re * q, x.im * q)
    return SymReal(x.e * q)


def bit(i, q, n):
    return (i >> (n - 1 - q)) & 1


def flip(i, q, n):
    return i ^ (1 << (n - 1 - q))


def zeros(N):
    return [[0 for _ in range(N)] for _ in range(N)]


def apply_1q(rho, name, q, n):
    """rho' = U_q rho U_q^dagger"""
    scale2, M = GATES[name]
    N = 1 << n
    # left multiply: (U rho)[i][j] = sum_b M[bit_i][b] rho[i with bit q := b][j]
    tmp = zeros(N)
    for i in range(N):
        bi = bit(i, q, n)
        for b in (0, 1):
            c = M[bi][b]
            if c == 0:
                continue
            src = i if b == bi else flip(i, q, n)
            for j in range(N):
                tmp[i][j] = tmp[i][j] + scal(c, rho[src][j])
    out = zeros(N)
    for j in range(N):
        bj = bit(j, q, n)
        for b in (0, 1):
            c = np.conj(M[bj][b]).item() if isinstance(M[bj][b], complex) else M[bj][b]
            if c == 0:
                continue
            src = j if b == bj else flip(j, q, n)
            for i in range(N):
                out[i][j] = out[i][j] + scal(c, tmp[i][src])
    if scale2 != 1:
        out = [[scal(scale2, out[i][j]) for j in range(N)] for i in range(N)]
    return out


def apply_controlled(rho, name, c, t, n):
    """controlled-U (U in {X, Z}) with control c, target t: rho' = CU rho CU^dagger by index permutation / sign"""
    N = 1 << n
    if name == "X":
        perm = [flip(i, t, n) if bit(i, c, n) else i for i in range(N)]
        return [[rho[perm[i]][perm[j]] for j in range(N)] for i in range(N)]
    if name == "Z":
        sgn = [(-1 if (bit(i, c, n) and bit(i, t, n)) else 1) for i in range(N)]
        return [[scal(sgn[i] * sgn[j], rho[i][j]) for j in range(N)] for i in range(N)]
    raise ValueError(name)


def project(rho, q, o, n):
    """(unnormalised) P_o rho P_o and its trace; o is a concrete 0/1"""
    N = 1 << n
    out = zeros(N)
    tr = 0
    for i in range(N):
        if bit(i, q, n) != o:
            continue
        for j in range(N):
            if bit(j, q, n) == o:
                out[i][j] = rho[i][j]
        tr = tr + real_part(rho[i][i])
    return out, tr


def real_part(x):
    if isinstance(x, (SymComplex,)):
        return x.real
    if isinstance(x, SymReal):
        return x
    return x.real if hasattr(x, "real") else x


def divide(rho, t):
    N = len(rho)
    return [[(rho[i][j] / t if not _is_zero(rho[i][j]) else 0) for j in range(N)] for i in range(N)]


def _is_zero(x):
    return isinstance(x, (int, float, complex)) and x == 0


def reset(rho, q, n):
    """trace the qubit out and re-prepare |0>:  rho' = sum_b K_b rho K_b^dagger, K_b = |0><b| on qubit q"""
    N = 1 << n
    out = zeros(N)
    for i in range(N):
        if bit(i, q, n) != 0:
            continue
        for j in range(N):
            if bit(j, q, n) != 0:
                continue
            out[i][j] = rho[i][j] + rho[flip(i, q, n)][flip(j, q, n)]
    return out


def partial_trace(rho, keep, n):
    """reduced state on the qubits `keep` (order preserved)"""
    keep = list(keep)
    k = len(keep)
    rest = [q for q in range(n) if q not in keep]
    K = 1 << k
    out = zeros(K)

    def full_index(a, r):
        idx = 0
        for pos, q in enumerate(keep):
            if (a >> (k - 1 - pos)) & 1:
                idx |= 1 << (n - 1 - q)
        for pos, q in enumerate(rest):
            if (r >> (len(rest) - 1 - pos)) & 1:
                idx |= 1 << (n - 1 - q)
        return idx

    for a in range(K):
        for b in range(K):
            acc = 0
            for r in range(1 << len(rest)):
                acc = acc + rho[full_index(a, r)][full_index(b, r)]
            out[a][b] = acc
    return out


def pauli_conj(rho, name, q, n):
    return apply_1q(rho, name, q, n)


def add(a, b):
    N = len(a)
    return [[a[i][j] + b[i][j] for j in range(N)] for i in range(N)]


def scale(a, c):
    N = len(a)
    return [[(c * a[i][j] if not _is_zero(a[i][j]) else 0) for j in range(N)] for i in range(N)]


# -- comparison with tolerance ----------------------------------------------------------------------------
def close(a, b, tol):
    """|a - b| <= tol component-wise (python bool or SymBool)"""
    import z3
    from symnp import sym

    if is_sym(a) or is_sym(b):
        d = SymComplex.lift(a) - SymComplex.lift(b)
        t = sym._zr(tol)
        return sym._wrapb(z3.And(d.re <= t, -d.re <= t, d.im <= t, -d.im <= t))
    d = complex(a) - complex(b)
    return abs(d.real) <= tol and abs(d.imag) <= tol


def matrix_close(a, b, tol):
    N = len(b)
    return [close(a[i][j], b[i][j], tol) for i in range(N) for j in range(N)]
