"""
Reference stabilizer simulator for CONCRETE circuits with (possibly symbolic) measurement outcomes and signs.
Independent of graphiq.  x/z bits of all rows stay concrete python ints (the circuit and the initial state are
concrete), only the sign bits are polymorphic (python int or symnp SymInt), so every structural decision
(which generator anticommutes with the measured Pauli) is an ordinary python `if`.

Textbook semantics (Aaronson & Gottesman 2004), written against oracle.pauli's numerically derived tables.
"""
from __future__ import annotations

from oracle import pauli as O


class RefSim:
    def __init__(self, n):
        self.n = n
        self.destab = [O.Row.single(n, q, "X") for q in range(n)]
        self.stab = [O.Row.single(n, q, "Z") for q in range(n)]

    def gate(self, name, *qs):
        if name == "I":
            return
        self.destab = [O.apply_gate(r, (name, *qs)) for r in self.destab]
        self.stab = [O.apply_gate(r, (name, *qs)) for r in self.stab]

    def cond_gate(self, name, q, cond):
        """apply the one-qubit Pauli gate iff bit `cond` (Pauli conjugation only flips signs)"""
        assert name in ("X", "Y", "Z")

        def f(r):
            base = r.copy()
            base.hi = 0
            flip = O.apply1(base, name, q).hi  # x/z are concrete, so the flip bit is a concrete 0/1
            out = r.copy()
            if flip:
                out.hi = r.hi ^ cond
            return out

        self.destab = [f(r) for r in self.destab]
        self.stab = [f(r) for r in self.stab]

    def measure_z(self, q, fresh_outcome):
        """returns (outcome, random?) ; fresh_outcome() supplies the free outcome in the random case"""
        n = self.n
        p = None
        for i in range(n):
            if self.stab[i].x[q] == 1:
                p = i
                break
        if p is not None:
            for i in range(n):
                if i != p and self.stab[i].x[q] == 1:
                    self.stab[i] = O.mul(self.stab[p], self.stab[i])
            for i in range(n):
                if i != p and self.destab[i].x[q] == 1:
                    self.destab[i] = O.mul(self.stab[p], self.destab[i])
            self.destab[p] = self.stab[p]
            o = fresh_outcome()
            self.stab[p] = O.Row.single(n, q, "Z", sign=o)
            return o, True
        acc = O.Row.identity(n)
        for i in range(n):
            if self.destab[i].x[q] == 1:
                acc = O.mul(acc, self.stab[i])
        assert all(v == 0 for v in acc.x) and acc.z[q] == 1 and sum(acc.z) == 1, "deterministic Z measurement: product must be +-Z_q"
        return acc.hi, False

    def reset_z(self, q, fresh_outcome):
        o, _ = self.measure_z(q, fresh_outcome)
        self.cond_gate("X", q, o)

    def contains(self, row):
        return O.member_with_destabs(row, self.stab, self.destab)


def expand_circuit_ops(circuit):
    """Operation order derived by the harness itself: a topological order of circuit.dag (any linear extension
    gives the same state: operations on disjoint registers commute); wrappers are expanded by the convention
    'the list denotes the matrix product, i.e. the LAST listed gate acts first' -- sequence()/unwrap() of graphiq
    are not used."""
    import networkx as nx

    out = []
    for node in nx.topological_sort(circuit.dag):
        op = circuit.dag.nodes[node]["op"]
        cls = type(op).__name__
        if cls in ("Input", "Output"):
            continue
        if cls == "OneQubitGateWrapper":
            for sub in reversed(op.operations):
                out.append((sub.__name__, (op.reg_type, op.register)))
        elif hasattr(op, "control"):
            out.append((cls, (op.control_type, op.control), (op.target_type, op.target), getattr(op, "c_register", None)))
        else:
            out.append((cls, (op.reg_type, op.register), getattr(op, "c_register", None)))
    return out


ONE_Q = {"Hadamard": "H", "Phase": "P", "PhaseDagger": "P_dag", "SigmaX": "X", "SigmaY": "Y", "SigmaZ": "Z", "Identity": "I"}


def run_reference(ops_list, n_p, n_e, fresh_outcome):
    """execute an expanded op list on |0...0>, photons first then emitters; returns (RefSim, classical record dict)"""
    sim = RefSim(n_p + n_e)
    record = {}

    def idx(reg):
        t, i = reg
        return i if t == "p" else n_p + i

    for op in ops_list:
        name = op[0]
        if name in ONE_Q:
            sim.gate(ONE_Q[name], idx(op[1]))
        elif name == "CNOT":
            sim.gate("CNOT", idx(op[1]), idx(op[2]))
        elif name == "CZ":
            sim.gate("CZ", idx(op[1]), idx(op[2]))
        elif name == "MeasurementZ":
            o, _ = sim.measure_z(idx(op[1]), fresh_outcome)
            record[op[2]] = o
        elif name in ("ClassicalCNOT", "ClassicalCZ"):
            o, _ = sim.measure_z(idx(op[1]), fresh_outcome)
            sim.cond_gate("X" if name == "ClassicalCNOT" else "Z", idx(op[2]), o)
            record[op[3]] = o
        elif name == "MeasurementCNOTandReset":
            o, _ = sim.measure_z(idx(op[1]), fresh_outcome)
            sim.cond_gate("X", idx(op[2]), o)
            sim.cond_gate("X", idx(op[1]), o)  # reset: the control is in |o>, flip it back to |0>
            record[op[3]] = o
        else:
            raise ValueError(f"reference simulator: unsupported operation {name}")
    return sim, record
