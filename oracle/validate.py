"""
Oracle validation (DESIGN 3): the concrete twins of the oracles are compared with a ~30-line DENSE state-vector /
density-matrix simulator written here (numpy only, no graphiq).  This validates the trusted base; it decides no
property.  Run by `./check --selftest` and at the start of every thorough run.

Checked:
  V1  Row.mul sign/phase        vs products of dense Pauli matrices             (all pairs of 2-qubit Paulis x signs)
  V2  apply_gate tables          vs U P U^dagger for dense U                      (all 1-/2-qubit gates, all 2-qubit Paulis)
  V3  RefSim (oracle/chp.py)     vs dense state-vector simulation incl. Z measurement with both outcomes,
                                    conditional Paulis and reset                  (random Clifford+measurement circuits, n<=3)
  V4  member_with_destabs / member_by_enumeration vs dense check  P|psi> = |psi>
  V5  oracle/dm.py apply_1q / apply_controlled / project / reset / partial_trace  vs dense kron formulas (random rho)
  V6  cut-count entropy oracle (props.c03.cut_count) vs entropy of the dense reduced density matrix
"""
from __future__ import annotations

import itertools
import random

import numpy as np

from oracle import pauli as O
from oracle import chp
from oracle import dm as D


def kron_all(ms):
    out = np.array([[1]], dtype=complex)
    for m in ms:
        out = np.kron(out, m)
    return out


def dense_pauli(row):
    m = O.pauli_matrix(row.x, row.z)
    k = 2 * int(row.hi) + int(row.lo)
    return (1j ** k) * m


def embed1(u, q, n):
    return kron_all([u if i == q else O.I2 for i in range(n)])


def embed_controlled(u, c, t, n):
    p0 = kron_all([O.P0 if i == c else O.I2 for i in range(n)])
    p1 = kron_all([O.P1 if i == c else (u if i == t else O.I2) for i in range(n)])
    return p0 + p1


def check(cond, msg, fails):
    if not cond:
        fails.append(msg)


def v1(fails):
    n = 2
    for b1 in itertools.product((0, 1), repeat=2 * n + 2):
        for b2 in itertools.product((0, 1), repeat=2 * n + 2):
            a = O.Row(b1[:n], b1[n:2 * n], b1[2 * n], b1[2 * n + 1])
            b = O.Row(b2[:n], b2[n:2 * n], b2[2 * n], b2[2 * n + 1])
            check(np.allclose(dense_pauli(O.mul(a, b)), dense_pauli(a) @ dense_pauli(b)), f"V1 mul {b1} {b2}", fails)
            anti = not np.allclose(dense_pauli(a) @ dense_pauli(b), dense_pauli(b) @ dense_pauli(a))
            check(int(O.sp(a, b)) == int(anti), f"V1 sp {b1} {b2}", fails)
    return 4 ** (2 * n + 2)


def v2(fails):
    n = 2
    cnt = 0
    for bits in itertools.product((0, 1), repeat=2 * n + 1):
        r = O.Row(bits[:n], bits[n:2 * n], bits[2 * n], 0)
        for name, u in O.ONE_QUBIT.items():
            for q in range(n):
                U = embed1(u, q, n)
                check(np.allclose(dense_pauli(O.apply1(r, name, q)), U @ dense_pauli(r) @ U.conj().T), f"V2 {name} {q} {bits}", fails)
                cnt += 1
        for name, u in (("CNOT", O.X), ("CZ", O.Z), ("CY", O.Y)):
            for c, t in ((0, 1), (1, 0)):
                U = embed_controlled(u, c, t, n)
                check(np.allclose(dense_pauli(O.apply2(r, name, c, t)), U @ dense_pauli(r) @ U.conj().T), f"V2 {name} {c}{t} {bits}", fails)
                cnt += 1
        U = O.SWAP
        check(np.allclose(dense_pauli(O.apply2(r, "SWAP", 0, 1)), U @ dense_pauli(r) @ U.conj().T), f"V2 SWAP {bits}", fails)
    return cnt


def v3(fails, seed=1, trials=300):
    rng = random.Random(seed)
    cnt = 0
    for _ in range(trials):
        n = rng.choice((1, 2, 3))
        sim = chp.RefSim(n)
        psi = np.zeros(2 ** n, dtype=complex)
        psi[0] = 1
        ok = True
        for _step in range(rng.randint(1, 10)):
            kind = rng.choice(("g1", "g1", "g2", "m", "cx", "reset"))
            if kind == "g1":
                name = rng.choice(list(O.ONE_QUBIT))
                q = rng.randrange(n)
                sim.gate(name, q)
                psi = embed1(O.ONE_QUBIT[name], q, n) @ psi
            elif kind == "g2" and n >= 2:
                name = rng.choice(("CNOT", "CZ"))
                c, t = rng.sample(range(n), 2)
                sim.gate(name, c, t)
                psi = embed_controlled(O.X if name == "CNOT" else O.Z, c, t, n) @ psi
            elif kind in ("m", "cx", "reset"):
                q = rng.randrange(n)
                want = rng.choice((0, 1))
                o, was_random = sim.measure_z(q, lambda: want)
                p = [kron_all([(O.P0 if b == 0 else O.P1) if i == q else O.I2 for i in range(n)]) for b in (0, 1)]
                probs = [float(np.real(psi.conj() @ p[b] @ psi)) for b in (0, 1)]
                if was_random:
                    check(abs(probs[0] - 0.5) < 1e-9, f"V3 random case but probs {probs}", fails)
                    o = int(o)
                else:
                    o = int(o)
                    check(abs(probs[o] - 1) < 1e-9, f"V3 deterministic outcome {o} but probs {probs}", fails)
                psi = p[o] @ psi
                psi = psi / np.linalg.norm(psi)
                if kind == "cx" and n >= 2:
                    t = rng.choice([i for i in range(n) if i != q])
                    g = rng.choice(("X", "Z"))
                    sim.cond_gate(g, t, o)
                    if o:
                        psi = embed1(O.ONE_QUBIT[g], t, n) @ psi
                elif kind == "reset":
                    sim.cond_gate("X", q, o)
                    if o:
                        psi = embed1(O.X, q, n) @ psi
            for g in sim.stab:
                v = dense_pauli(g) @ psi
                if not np.allclose(v, psi, atol=1e-9):
                    ok = False
            cnt += 1
        check(ok, "V3 RefSim stabilizers do not stabilize the dense state", fails)
        # V4 membership
        for g in sim.stab:
            check(bool(O.member_with_destabs(g, sim.stab, sim.destab)), "V4 generator not member", fails)
            neg = g.copy()
            neg.hi = 1 ^ neg.hi
            check(not bool(O.member_with_destabs(neg, sim.stab, sim.destab)), "V4 negated generator member", fails)
            check(bool(O.member_by_enumeration(g, sim.stab)) and not bool(O.member_by_enumeration(neg, sim.stab)), "V4 enumeration", fails)
        # V6 cut entropy
        from props.c03 import cut_count
        rho = np.outer(psi, psi.conj())
        for k in range(n):
            red = np.asarray(D.partial_trace(rho.tolist(), list(range(k + 1)), n), dtype=complex)
            ev = np.linalg.eigvalsh(red)
            ev = ev[ev > 1e-12]
            ent = float(-(ev * np.log2(ev)).sum())
            cc = int(cut_count(sim.stab, n, k))
            check(abs((k + 1) - np.log2(cc) - ent) < 1e-6, f"V6 entropy cut {k}: oracle {(k + 1) - np.log2(cc)} dense {ent}", fails)
    return cnt


def v5(fails, seed=2, trials=40):
    rng = np.random.default_rng(seed)
    cnt = 0
    for _ in range(trials):
        n = int(rng.integers(1, 4))
        N = 2 ** n
        a = rng.normal(size=(N, N)) + 1j * rng.normal(size=(N, N))
        rho = a @ a.conj().T
        rho = rho / np.trace(rho)
        cells = rho.tolist()
        for name, u in O.ONE_QUBIT.items():
            for q in range(n):
                U = embed1(u, q, n)
                got = np.asarray(D.apply_1q(cells, name, q, n), dtype=complex)
                check(np.allclose(got, U @ rho @ U.conj().T, atol=1e-9), f"V5 apply_1q {name} {q}", fails)
                cnt += 1
        for c, t in itertools.permutations(range(n), 2):
            for nm, u in (("X", O.X), ("Z", O.Z)):
                U = embed_controlled(u, c, t, n)
                got = np.asarray(D.apply_controlled(cells, nm, c, t, n), dtype=complex)
                check(np.allclose(got, U @ rho @ U.conj().T, atol=1e-9), f"V5 controlled {nm} {c}{t}", fails)
                cnt += 1
        for q in range(n):
            for o in (0, 1):
                P = kron_all([(O.P0 if o == 0 else O.P1) if i == q else O.I2 for i in range(n)])
                proj, tr = D.project(cells, q, o, n)
                check(np.allclose(np.asarray(proj, dtype=complex), P @ rho @ P, atol=1e-9) and abs(tr - np.trace(P @ rho).real) < 1e-9, f"V5 project {q}{o}", fails)
            K0 = kron_all([np.array([[1, 0], [0, 0]]) if i == q else O.I2 for i in range(n)])
            K1 = kron_all([np.array([[0, 1], [0, 0]]) if i == q else O.I2 for i in range(n)])
            check(np.allclose(np.asarray(D.reset(cells, q, n), dtype=complex), K0 @ rho @ K0.conj().T + K1 @ rho @ K1.conj().T, atol=1e-9), f"V5 reset {q}", fails)
            cnt += 3
        for r in range(1, n + 1):
            for keep in itertools.combinations(range(n), r):
                got = np.asarray(D.partial_trace(cells, list(keep), n), dtype=complex)
                # dense: reshape and trace
                t = rho.reshape([2] * (2 * n))
                rest = [q for q in range(n) if q not in keep]
                idx_in = list(range(n)) + [n + i for i in range(n)]
                for q in rest:
                    idx_in[n + q] = q
                out_idx = [q for q in keep] + [n + q for q in keep]
                want = np.einsum(t, idx_in, out_idx).reshape(2 ** r, 2 ** r)
                check(np.allclose(got, want, atol=1e-9), f"V5 partial_trace keep={keep}", fails)
                cnt += 1
    return cnt


def run(verbose=True):
    fails = []
    counts = {"V1 pauli products": v1(fails), "V2 conjugation tables": v2(fails), "V3/V4/V6 reference simulator, membership, cut entropy": v3(fails),
              "V5 density-matrix oracle": v5(fails)}
    if verbose:
        for k, v in counts.items():
            print(f"  oracle-validation {k}: {v} cases")
        for f in fails[:10]:
            print("  ORACLE-VALIDATION FAILED:", f)
    return fails, counts
