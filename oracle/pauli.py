"""
Oracles O1-O4 (DESIGN 3): signed Pauli algebra, Clifford action tables, stabilizer-group membership with
signs, measurement semantics.  Independent of graphiq (never imports it).

All functions are *polymorphic*: a "bit" is a python/numpy int 0/1 or a symnp SymInt carrying a Boolean;
only ^ & | and == are used on bits, so the same code runs in the symbolic check and in the concrete replay.

Convention (Aaronson-Gottesman): a row (x, z, r) denotes (-1)^r * prod_j P_j with P_j = I, X, Y, Z for
(x_j, z_j) = (0,0), (1,0), (1,1), (0,1).  Every table below is *derived numerically at import time* from the
textbook matrices written in this file.
"""
from __future__ import annotations

import itertools

import numpy as np

from symnp.sym import b_and, b_or, b_not, b_xor, b_iff, b_implies, b_ite, SymInt, SymBool

# ---------------------------------------------------------------------------------------------------
# textbook matrices
# ---------------------------------------------------------------------------------------------------
I2 = np.eye(2, dtype=complex)
X = np.array([[0, 1], [1, 0]], dtype=complex)
Y = np.array([[0, -1j], [1j, 0]], dtype=complex)
Z = np.array([[1, 0], [0, -1]], dtype=complex)
H = np.array([[1, 1], [1, -1]], dtype=complex) / np.sqrt(2)
P = np.array([[1, 0], [0, 1j]], dtype=complex)
PDAG = P.conj().T
P0 = np.array([[1, 0], [0, 0]], dtype=complex)
P1 = np.array([[0, 0], [0, 1]], dtype=complex)
CNOT = np.kron(P0, I2) + np.kron(P1, X)  # control = first (most significant) tensor factor
CZ = np.kron(P0, I2) + np.kron(P1, Z)
CY = np.kron(P0, I2) + np.kron(P1, Y)
SWAP = np.array([[1, 0, 0, 0], [0, 0, 1, 0], [0, 1, 0, 0], [0, 0, 0, 1]], dtype=complex)
PAULI = {(0, 0): I2, (1, 0): X, (1, 1): Y, (0, 1): Z}
ONE_QUBIT = {"I": I2, "H": H, "P": P, "P_dag": PDAG, "X": X, "Y": Y, "Z": Z}
TWO_QUBIT = {"CNOT": CNOT, "CZ": CZ, "CY": CY, "SWAP": SWAP}


def pauli_matrix(xs, zs):
    m = np.array([[1]], dtype=complex)
    for x, z in zip(xs, zs):
        m = np.kron(m, PAULI[(int(x), int(z))])
    return m


def _identify(m, n):
    """m = s * Pauli(x, z) with s in {+1,-1,+i,-i}: return (x, z, k) with s = i^k"""
    for bits in itertools.product((0, 1), repeat=2 * n):
        xs, zs = bits[:n], bits[n:]
        p = pauli_matrix(xs, zs)
        for k, s in enumerate((1, 1j, -1, -1j)):
            if np.allclose(m, s * p):
                return xs, zs, k
    raise ValueError("not a Pauli up to phase")


# O1: product table  sigma(a) sigma(b) = i^k sigma(a xor b)
PROD_K = {}
for (x1, z1), (x2, z2) in itertools.product(PAULI, repeat=2):
    _, _, k = _identify(PAULI[(x1, z1)] @ PAULI[(x2, z2)], 1)
    PROD_K[(x1, z1, x2, z2)] = k


# O2: conjugation tables  U sigma U^dagger = (-1)^s sigma'
def conj_table(u, n):
    t = {}
    for bits in itertools.product((0, 1), repeat=2 * n):
        xs, zs = bits[:n], bits[n:]
        xs2, zs2, k = _identify(u @ pauli_matrix(xs, zs) @ u.conj().T, n)
        assert k in (0, 2), "Clifford conjugation of a Hermitian Pauli must be Hermitian"
        t[bits] = tuple(xs2) + tuple(zs2) + (k // 2,)
    return t


CONJ1 = {name: conj_table(u, 1) for name, u in ONE_QUBIT.items()}
CONJ2 = {name: conj_table(u, 2) for name, u in TWO_QUBIT.items()}


# ---------------------------------------------------------------------------------------------------
# polymorphic look-up table
# ---------------------------------------------------------------------------------------------------
def bnot(a):
    return 1 ^ a


def lut(ins, table, nout):
    """outs[k] = XOR over input patterns p with table[p][k] == 1 of AND_i (ins[i] == p[i])"""
    outs = [0] * nout
    for pat, vals in table.items():
        if not any(vals):
            continue
        m = 1
        for a, p in zip(ins, pat):
            m = m & (a if p else bnot(a))
        for k in range(nout):
            if vals[k]:
                outs[k] = outs[k] ^ m
    return outs


# ---------------------------------------------------------------------------------------------------
class Row:
    """signed Pauli with an i-exponent kept as two bits: phase = i^(2*hi + lo)"""

    __slots__ = ("x", "z", "hi", "lo")

    def __init__(self, x, z, hi=0, lo=0):
        self.x, self.z, self.hi, self.lo = list(x), list(z), hi, lo

    @property
    def n(self):
        return len(self.x)

    def copy(self):
        return Row(self.x, self.z, self.hi, self.lo)

    @staticmethod
    def identity(n):
        return Row([0] * n, [0] * n)

    @staticmethod
    def single(n, q, kind, sign=0):
        x, z = [0] * n, [0] * n
        if kind in ("X", "Y"):
            x[q] = 1
        if kind in ("Z", "Y"):
            z[q] = 1
        return Row(x, z, sign, 0)


def add_mod4(hi1, lo1, hi2, lo2):
    lo = lo1 ^ lo2
    carry = lo1 & lo2
    return hi1 ^ hi2 ^ carry, lo


_PROD_TABLE = {k: ((v >> 1) & 1, v & 1) for k, v in PROD_K.items()}


def mul(a: Row, b: Row) -> Row:
    """a * b (operator product, a on the left)"""
    hi, lo = add_mod4(a.hi, a.lo, b.hi, b.lo)
    for j in range(a.n):
        khi, klo = lut([a.x[j], a.z[j], b.x[j], b.z[j]], _PROD_TABLE, 2)
        hi, lo = add_mod4(hi, lo, khi, klo)
    return Row([p ^ q for p, q in zip(a.x, b.x)], [p ^ q for p, q in zip(a.z, b.z)], hi, lo)


def sp(a: Row, b: Row):
    """symplectic product: 1 iff a and b anticommute"""
    acc = 0
    for j in range(a.n):
        acc = acc ^ (a.x[j] & b.z[j]) ^ (a.z[j] & b.x[j])
    return acc


def select(c, a: Row, b: Row) -> Row:
    """c ? a : b   (c a bit)"""

    def s(p, q):
        return (c & p) ^ (bnot(c) & q)

    return Row([s(p, q) for p, q in zip(a.x, b.x)], [s(p, q) for p, q in zip(a.z, b.z)], s(a.hi, b.hi), s(a.lo, b.lo))


def eq_bits(a, b):
    r = a == b
    if isinstance(r, (bool, np.bool_)):
        return bool(r)
    return r


def row_eq(a: Row, b: Row, signs=True):
    cs = [eq_bits(p, q) for p, q in zip(a.x, b.x)] + [eq_bits(p, q) for p, q in zip(a.z, b.z)]
    if signs:
        cs += [eq_bits(a.hi, b.hi), eq_bits(a.lo, b.lo)]
    return b_and(*cs)


# ---------------------------------------------------------------------------------------------------
# Clifford action on rows (O2)
# ---------------------------------------------------------------------------------------------------
def apply1(row: Row, name, q) -> Row:
    x2, z2, s = lut([row.x[q], row.z[q]], CONJ1[name], 3)
    r = row.copy()
    r.x[q], r.z[q] = x2, z2
    r.hi = r.hi ^ s
    return r


def apply2(row: Row, name, a, b) -> Row:
    """two-qubit gate, `a` is the first tensor factor (control)"""
    xa, xb, za, zb, s = lut([row.x[a], row.x[b], row.z[a], row.z[b]], CONJ2[name], 5)
    r = row.copy()
    r.x[a], r.x[b], r.z[a], r.z[b] = xa, xb, za, zb
    r.hi = r.hi ^ s
    return r


def apply_gate(row: Row, gate) -> Row:
    """gate: (name, q) or (name, a, b)"""
    if gate[0] in CONJ1:
        return apply1(row, gate[0], gate[1])
    return apply2(row, gate[0], gate[1], gate[2])


# ---------------------------------------------------------------------------------------------------
# groups
# ---------------------------------------------------------------------------------------------------
def rows_of(table, phase, n, iphase=None):
    """table: k x 2n cells, phase: k cells  ->  list[Row]"""
    out = []
    for i in range(len(phase)):
        out.append(Row([table[i][j] for j in range(n)], [table[i][n + j] for j in range(n)], phase[i],
                       0 if iphase is None else iphase[i]))
    return out


def product_by_coeffs(gens, coeffs):
    """prod_i gens[i]^coeffs[i] in index order"""
    acc = Row.identity(gens[0].n)
    for g, c in zip(gens, coeffs):
        acc = select(c, mul(acc, g), acc)
    return acc


def member_with_destabs(g: Row, stabs, destabs):
    """g in <stabs> with its sign, the decomposition read off the destabilizers (valid when (destabs, stabs)
    is a symplectic basis)"""
    coeffs = [sp(g, d) for d in destabs]
    return row_eq(product_by_coeffs(stabs, coeffs), g)


def member_by_enumeration(g: Row, gens):
    """g in <gens> with its sign: finite disjunction over the 2^k coefficient vectors"""
    k = len(gens)
    alts = []
    for coeffs in itertools.product((0, 1), repeat=k):
        acc = Row.identity(gens[0].n)
        for gg, c in zip(gens, coeffs):
            if c:
                acc = mul(acc, gg)
        alts.append(row_eq(acc, g))
    return b_or(*alts)


def commute_all(rows):
    cs = []
    for i in range(len(rows)):
        for j in range(i + 1, len(rows)):
            cs.append(eq_bits(sp(rows[i], rows[j]), 0))
    return b_and(*cs)


def independent(rows):
    """no non-trivial product of the rows has x = z = 0"""
    k = len(rows)
    n = rows[0].n
    cs = []
    for coeffs in itertools.product((0, 1), repeat=k):
        if not any(coeffs):
            continue
        xs = [0] * n
        zs = [0] * n
        for r, c in zip(rows, coeffs):
            if c:
                xs = [a ^ b for a, b in zip(xs, r.x)]
                zs = [a ^ b for a, b in zip(zs, r.z)]
        cs.append(b_or(*[eq_bits(v, 1) for v in xs + zs]))
    return b_and(*cs)


def hermitian(rows):
    return b_and(*[eq_bits(r.lo, 0) for r in rows])


# ---------------------------------------------------------------------------------------------------
# Clifford-tableau representation invariant  Inv(T)   (DESIGN 4)
# ---------------------------------------------------------------------------------------------------
def inv_conditions(table, phase, iphase, n, bits_check=True):
    """list of (name, condition).  table: 2n x 2n cells; rows 0..n-1 destabilizers, n..2n-1 stabilizers."""
    rows = rows_of(table, phase, n, iphase)
    conds = []
    if bits_check:
        cells = [table[i][j] for i in range(2 * n) for j in range(2 * n)] + [phase[i] for i in range(2 * n)] + [
            iphase[i] for i in range(2 * n)]
        conds.append(("binary", b_and(*[b_or(eq_bits(c, 0), eq_bits(c, 1)) for c in cells])))
    for i in range(2 * n):
        for j in range(i + 1, 2 * n):
            want = 1 if j == i + n else 0
            conds.append((f"symplectic[{i},{j}]", eq_bits(sp(rows[i], rows[j]), want)))
    for i in range(n, 2 * n):
        conds.append((f"stabilizer-iphase[{i}]", eq_bits(iphase[i], 0)))
    return conds
