import json
TECH = "symbolic execution of the real Python/numpy code with z3 (path-wise, bounded; per-path SMT obligations against an independent oracle; solver models replayed on the unpatched code)"
def chk(pid, text, note, design):
    return {"property_id": pid, "quick_cmd": f"./check {pid} --tier quick", "thorough_cmd": f"./check {pid} --tier thorough",
            "evidence_file": f"evidence/{pid}.json", "replay_cmd_template": "./check --replay {path}", "engine": "symnp",
            "level_claimed": {"category": "other", "text": text, "design_ref": design}, "level_note": note, "technique": TECH}
TRUST = "trusted: z3 5.1, CPython/numpy object-array semantics, the symnp engine, the oracles in /verif/oracle (derived numerically from textbook matrices); np.random draws replaced by symbolic outcomes; "
checks = [
 chk("C01", "bounded symbolic execution + SMT of one compile_one_gate step of the stabilizer compiler from an arbitrary Inv state, for every accepted op class x register placement x measurement_determinism, against textbook semantics incl. the classical record (inductive step; circuits of any length within the size bound); reg_to_index over symbolic ints", TRUST + "bounds n_photon+n_emitter<=2 (thorough 3); the density-matrix leg and cross tie are added in DESIGN 5/C01 when built; compile() loop order rests on C12 (not claimed)", "DESIGN.md 5/C01"),
 chk("C02", "bounded symbolic execution + SMT of the whole TimeReversedSolver.__init__/solve() incl. compile and metric on a symbolic adjacency matrix; per path the returned circuit is re-executed by an independent reference simulator with fresh symbolic outcomes and z3 proves target generators (+ signs) and emitters in |0> for all outcome vectors", TRUST + "bounds: all labelled graphs n<=4 (thorough 5); density-matrix backend by composition with C01; known finding F2 (isolated vertices)", "DESIGN.md 5/C02"),
 chk("C03", "bounded symbolic execution + SMT of rref/height_func_list/determine_n_emitters on arbitrary valid generating sets and on [I|Gamma]; every returned height equals the cut entropy counted over the group elements (= GF(2) rank of the adjacency block)", TRUST + "bounds: general tableaux n<=2 (thorough 3), graphs n<=4 (thorough 5)", "DESIGN.md 5/C03"),
 chk("C05", "bounded symbolic execution + SMT of canonical_form (same group, same signs), gauge independence by elementary-operation induction, Stabilizer.__eq__, fidelity vs the overlap oracle, row_sum sign rule, Infidelity dispatch", TRUST + "bounds: n<=2 (thorough 3), whole-function fidelity n<=1 (thorough 2), row_sum n<=4 (thorough 6)", "DESIGN.md 5/C05"),
 chk("C07", "bounded symbolic execution + SMT: for every tableau within the size bound that satisfies the representation invariant, one API operation preserves the invariant and maps the stabilizer group to its textbook image (inductive step; histories of any length follow within the size bound)", TRUST + "bounds: gates n<=4 (thorough 8), measurement/reset/insert/remove/tensor n<=2 (thorough 3)", "DESIGN.md 5/C07"),
 chk("C11", "bounded symbolic execution + SMT of inverse_circuit / clifford_from_stabilizer / CliffordTableau(StabilizerTableau) / get_clifford_tableau_from_graph on arbitrary valid stabilizer tableaux and symbolic graphs: returned tableau is |0..0>, the oracle image of the input under the returned gates is +Z-type, the reverse run reproduces every generator with sign", TRUST + "bounds: tableaux n<=2 (thorough 3), graphs n<=4 (thorough 5)", "DESIGN.md 5/C11"),
]
NA = {
 "C04": "mutation moves over networkx MultiDiGraph histories chosen by RNG: no numeric state to make symbolic; selectors would be enumerated, not solved (solver-output emission constraints are asserted as a by-product of C02)",
 "C10": "inputs flow through iso_finder (unrunnable here: np.math removed in numpy 2.x), networkx isomorphism and RNG orbit walks; only per-entry circuit checking is solver-decidable and that is C02/C09",
 "C12": "pointer-rich heap (MultiDiGraph + label/edge indexes) under edit histories: symbolic selectors concretise at every dict / f-string key, i.e. enumeration of histories",
 "C13": "aliasing / object-identity property over interleavings of API calls; nothing for a solver to range over",
 "C14": "re / str.split parsing at the C boundary and selector-driven program text; CrossHair is inconclusive on regex over symbolic str; a z3-string model of the parser would be a hand model, not the real code",
 "C15": "networkx DAG isomorphism over pairs of circuit objects (program-quantified, heap-backed)",
 "C18": "longest-path / label-index counting over arbitrary circuit DAGs (program-quantified, heap-backed)",
 "C19": "RNG-seeded population loops over circuit objects",
 "C06": "not built yet in this round (planned: DESIGN 5/C06)",
 "C08": "not built yet in this round (planned: DESIGN 5/C08)",
 "C09": "not built yet in this round (planned: DESIGN 5/C09)",
 "C16": "not built yet in this round (planned: DESIGN 5/C16, relabel clause only)",
 "C17": "not built yet in this round (planned: DESIGN 5/C17, partial-trace clause only)",
 "C20": "not built yet in this round (planned: DESIGN 5/C20)",
}
import sys
claimed = {c["property_id"] for c in checks}
m = {"version": 1, "setup_cmd": "./setup.sh",
 "hooks": {"guard": "GRAPHIQ_VERIF", "enable": "none needed: the checks rebind module globals (np, int, nx, leaf functions) of the imported graphiq modules in-process; /repo sources carry no hook", "baseline_off_cmd": "cd /repo && /venv/bin/python -m pytest -ra -q -p no:cacheprovider --timeout=900 --continue-on-collection-errors", "source_commits": [], "add_only": True},
 "engines": [{"name": "symnp", "path": "symnp/", "serves_properties": sorted(claimed), "kind_free_text": "path-wise symbolic execution of the real python/numpy code: object arrays whose cells are z3 terms, fork at every data-dependent branch, DFS re-execution with decision-prefix replay over 16 cores, z3 decides feasibility and every obligation; models are replayed on unpatched code"}],
 "checks": checks,
 "not_applicable": [{"property_id": k, "reason": v} for k, v in sorted(NA.items()) if k not in claimed],
 "notes": "fix: commits in /repo and open findings are listed in known_findings.json; see DESIGN.md"}
json.dump(m, open("/verif/MANIFEST.json", "w"), indent=1)
