#!/usr/bin/env python3
"""(Re)generate seeded/README.md: one row per seeded change with what it needs to manifest and which check/harness caught it."""
import glob, json, os
rows = []
for d in sorted(glob.glob(os.path.join(os.path.dirname(os.path.abspath(__file__)), "seeded", "*"))):
    if not os.path.isdir(d):
        continue
    m = json.load(open(d + "/meta.json"))
    ev = json.load(open(d + "/eval.json")) if os.path.exists(d + "/eval.json") else {}
    def cell(tier):
        vs = [(k, v) for k, v in ev.items() if f":{tier}" in k]
        if not vs:
            return "not run"
        out = []
        for k, v in vs:
            if v["caught"]:
                js = sorted({j.split("[job] ")[1].split(":")[0].split("(")[0] for j in v["violating_jobs"] if "[job]" in j})
                out.append(f"**caught** by `./check {k.split(':')[0]}` ({', '.join(js)})")
            else:
                out.append(f"missed by `./check {k.split(':')[0]}` (exit {v['exit']})")
        return "; ".join(out)
    rows.append(f"| {m['id']} | {m['breaks_property']} | {m['needs_to_manifest']} | {cell('quick')} | {cell('thorough')} | {m.get('strengthening', '')} |")
hdr = ("# Seeded changes\n\nEach directory holds `patch.diff` (the change), `demo.py` (passes without, fails with the change; written by an independent "
       "sub-agent that saw only the property text), `meta.json`, `confirm.json` (my confirmation in a scratch worktree: demo both ways + the full pinned "
       "suite keeps its 246 baseline passes) and `eval.json` (what `./check` reported with the change applied).\n\n"
       "| id | property | needs, in order to manifest | quick tier | thorough tier | check strengthened because of it |\n|---|---|---|---|---|---|\n")
open(os.path.join(os.path.dirname(os.path.abspath(__file__)), "seeded", "README.md"), "w").write(hdr + "\n".join(rows) + "\n")
design = os.path.join(os.path.dirname(os.path.abspath(__file__)), "DESIGN.md")
txt = open(design).read()
a, b = txt.index("<!-- SEED-TABLE-BEGIN -->"), txt.index("<!-- SEED-TABLE-END -->")
table = "| id | property | needs, in order to manifest | quick tier | thorough tier | check strengthened because of it |\n|---|---|---|---|---|---|\n" + "\n".join(rows) + "\n"
open(design, "w").write(txt[:a] + "<!-- SEED-TABLE-BEGIN -->\n" + table + txt[b:])
print(len(rows), "rows")
