"""
symnp.arr -- SymArray (object-dtype ndarray subclass whose cells may be symbolic), numpy function models,
and the `np` proxy that is bound as the module-global `np` of instrumented graphiq modules.
"""
from __future__ import annotations

import functools
import itertools
import operator
from fractions import Fraction

import numpy as np
import z3

from . import sym
from .sym import (SymBool, SymInt, SymReal, SymComplex, SymRatio, SymIntType, Unsupported, b_and, b_or, b_not,
                  b_xor, is_sym)


def has_sym(a):
    if isinstance(a, np.ndarray):
        if a.dtype != object:
            return False
        return any(is_sym(x) or isinstance(x, SymRatio) for x in a.flat)
    return is_sym(a) or isinstance(a, SymRatio)


def plain(a):
    """SymArray -> plain ndarray view (object); anything else unchanged"""
    if isinstance(a, SymArray):
        return a.view(np.ndarray)
    return a


def wrap(r):
    if isinstance(r, np.ndarray):
        if r.dtype == object:
            if r.ndim == 0:
                return r.item()
            if r.size and all(isinstance(x, (bool, np.bool_)) for x in r.flat):
                # concrete truth values: give numpy a real bool array (masks, ~, sum behave as in plain numpy)
                return np.asarray(r.view(np.ndarray), dtype=bool)
            return r.view(SymArray)
        return r
    if isinstance(r, tuple):
        return tuple(wrap(x) for x in r)
    if isinstance(r, list):
        return [wrap(x) for x in r]
    return r


def _norm_cell(x):
    if isinstance(x, np.generic):
        return x.item()
    return x


def to_obj(a):
    """any array-like -> plain object ndarray with python scalars / symbolic cells"""
    if isinstance(a, np.ndarray):
        if a.dtype == object:
            return a.view(np.ndarray)
        return a.astype(object)
    if is_sym(a) or isinstance(a, SymRatio):
        out = np.empty((), dtype=object)
        out[()] = a
        return out
    return np.array(a, dtype=object)


def concrete_or_none(a, dtype=None):
    """numeric ndarray if every cell is concrete, else None"""
    if not isinstance(a, np.ndarray):
        return None if has_sym(a) else a
    if a.dtype != object:
        return np.asarray(a)
    if has_sym(a):
        return None
    b = np.asarray(a.view(np.ndarray))
    try:
        if dtype is not None:
            return b.astype(dtype)
        if all(isinstance(x, (int, bool, np.integer, np.bool_)) for x in b.flat):
            return b.astype(int)
        if all(isinstance(x, (int, bool, float, np.integer, np.bool_, np.floating)) for x in b.flat):
            return b.astype(float)
        return b.astype(complex)
    except (TypeError, ValueError):
        return None


def elementwise(op, *args):
    arrs = [to_obj(a) if (isinstance(a, (np.ndarray, list, tuple)) or is_sym(a) or isinstance(a, SymRatio)) else a
            for a in args]
    f = np.frompyfunc(op, len(args), 1)
    return wrap(f(*arrs))


# ------------------------------------------------------------------------------------------------------
def _logical_not(a):
    return b_not(a)


def _sqrt_cell(x):
    if isinstance(x, SymReal):
        return x.sqrt()
    if isinstance(x, SymInt):
        return SymReal.lift(x).sqrt()
    if isinstance(x, SymComplex):
        raise Unsupported("sqrt of symbolic complex")
    return np.sqrt(x)


def _real_cell(x):
    if isinstance(x, (SymComplex, SymReal, SymInt)):
        return x.real
    return np.real(x).item() if isinstance(np.real(x), np.generic) else np.real(x)


def _imag_cell(x):
    if isinstance(x, (SymComplex, SymReal, SymInt)):
        return x.imag
    r = np.imag(x)
    return r.item() if isinstance(r, np.generic) else r


def _conj_cell(x):
    if hasattr(x, "conjugate"):
        return x.conjugate()
    return x


def _abs_cell(x):
    return abs(x)


def _invert_cell(x):
    if isinstance(x, (bool, np.bool_, SymBool)):
        return b_not(x)
    return ~x


_CUSTOM_UFUNC = {
    np.invert: _invert_cell,
    np.logical_and: lambda a, b: b_and(a, b),
    np.logical_or: lambda a, b: b_or(a, b),
    np.logical_xor: lambda a, b: b_xor(a, b),
    np.logical_not: _logical_not,
    np.sqrt: _sqrt_cell,
    np.conjugate: _conj_cell,
    np.absolute: _abs_cell,
}
_COMPARE = {np.equal: operator.eq, np.not_equal: operator.ne, np.less: operator.lt, np.less_equal: operator.le,
            np.greater: operator.gt, np.greater_equal: operator.ge}


def _cmp_cell(op):
    def f(a, b):
        r = op(a, b)
        if r is NotImplemented:
            raise Unsupported(f"comparison {op.__name__} between {type(a)} and {type(b)}")
        if isinstance(r, np.bool_):
            return bool(r)
        return r

    return f


class SymArray(np.ndarray):
    __array_priority__ = 1000

    def __array_finalize__(self, obj):
        pass

    # -- element-wise semantics ------------------------------------------------------------------------
    def __array_ufunc__(self, ufunc, method, *inputs, out=None, **kwargs):
        ins = [plain(x) for x in inputs]
        if method == "__call__":
            if ufunc in _COMPARE:
                r = elementwise(_cmp_cell(_COMPARE[ufunc]), *ins)
            elif ufunc in _CUSTOM_UFUNC:
                r = elementwise(_CUSTOM_UFUNC[ufunc], *ins)
            elif ufunc is np.matmul:
                r = wrap(_matmul(to_obj(ins[0]), to_obj(ins[1])))
            else:
                kwargs.pop("dtype", None)
                ins = [to_obj(x) if isinstance(x, np.ndarray) and x.dtype != object else x for x in ins]
                try:
                    r = wrap(ufunc(*ins, dtype=object, **kwargs))
                except TypeError as e:
                    raise Unsupported(f"ufunc {ufunc.__name__} on symbolic array: {e}")
            if out is not None:
                o = out[0] if isinstance(out, tuple) else out
                plain(o)[...] = plain(r) if isinstance(r, np.ndarray) else r
                return o
            return r
        if method == "reduce":
            if ufunc in (np.logical_and, np.logical_or):
                raise Unsupported("logical reduce")
            kwargs.pop("dtype", None)
            ins = [to_obj(x) if isinstance(x, np.ndarray) and x.dtype != object else x for x in ins]
            return wrap(ufunc.reduce(*ins, **kwargs))
        raise Unsupported(f"ufunc method {ufunc.__name__}.{method}")

    def __array_function__(self, func, types, args, kwargs):
        h = _FUNCTION_MODELS.get(func)
        if h is not None:
            return h(*args, **kwargs)
        r = super().__array_function__(func, types, args, kwargs)
        return wrap(r)

    def astype(self, dtype, *a, **k):
        if dtype in (bool, np.bool_):
            return elementwise(lambda x: bool(x != 0) if not isinstance(x, (bool, SymBool)) else bool(x), self)
        try:
            is_int = np.issubdtype(np.dtype(dtype), np.integer) or dtype is SymIntType
        except TypeError:
            is_int = dtype is SymIntType
        out = self.copy()
        if is_int:
            pv = out.view(np.ndarray)
            for idx in np.ndindex(*pv.shape):
                if isinstance(pv[idx], (float, np.floating)):
                    pv[idx] = int(pv[idx])
        return out

    def __bool__(self):
        if self.size != 1:
            raise ValueError("The truth value of an array with more than one element is ambiguous.")
        return bool(self.flat[0])

    def __deepcopy__(self, memo):
        return self.copy()

    def __setitem__(self, key, value):
        if isinstance(value, np.ndarray) and value.dtype != object:
            value = value.astype(object)
        elif isinstance(value, np.generic):
            value = value.item()
        return np.ndarray.__setitem__(self, key, value)

    def __getitem__(self, key):
        r = np.ndarray.__getitem__(self, key)
        return r

    def all(self, axis=None, **k):
        return _all(self, axis=axis)

    def any(self, axis=None, **k):
        return _any(self, axis=axis)

    def conj(self):
        return elementwise(_conj_cell, self)

    conjugate = conj

    @property
    def real(self):
        return elementwise(_real_cell, self)

    @property
    def imag(self):
        return elementwise(_imag_cell, self)

    def tolist(self):
        return np.ndarray.tolist(self.view(np.ndarray))

    def round(self, decimals=0, out=None):
        return _round(self, decimals)


def _matmul(a, b):
    if a.ndim > 2 or b.ndim > 2:
        return np.matmul(np.asarray(a, dtype=object), np.asarray(b, dtype=object))  # native object loop (stacks)
    if a.ndim == 1 and b.ndim == 1:
        return functools.reduce(operator.add, [a[i] * b[i] for i in range(a.shape[0])], 0)
    if a.ndim == 1:
        return _matmul(a.reshape(1, -1), b)[0]
    if b.ndim == 1:
        return _matmul(a, b.reshape(-1, 1))[:, 0]
    n, k = a.shape
    k2, m = b.shape
    assert k == k2, "matmul shape mismatch"
    out = np.empty((n, m), dtype=object)
    for i in range(n):
        for j in range(m):
            acc = 0
            for t in range(k):
                x, y = a[i, t], b[t, j]
                if _is_zero(x) or _is_zero(y):
                    continue
                acc = acc + x * y
            out[i, j] = acc
    return out


def _is_zero(x):
    return isinstance(x, (int, float, complex, bool)) and x == 0


# ------------------------------------------------------------------------------------------------------
# numpy function models
# ------------------------------------------------------------------------------------------------------
def _truth(x):
    if isinstance(x, SymBool):
        return x
    if is_sym(x):
        return x != 0
    return bool(x)


def _all(a, axis=None, **k):
    a = to_obj(a)
    if axis is None:
        return b_and(*[_truth(x) for x in a.flat])
    return wrap(np.apply_along_axis(lambda v: _box(b_and(*[_truth(x) for x in v])), axis, a))


def _any(a, axis=None, **k):
    a = to_obj(a)
    if axis is None:
        return b_or(*[_truth(x) for x in a.flat])
    return wrap(np.apply_along_axis(lambda v: _box(b_or(*[_truth(x) for x in v])), axis, a))


def _box(x):
    o = np.empty((), dtype=object)
    o[()] = x
    return o


def _array_equal(a, b, **k):
    a, b = to_obj(np.asarray(plain(a)) if not isinstance(a, np.ndarray) else a), to_obj(
        np.asarray(plain(b)) if not isinstance(b, np.ndarray) else b)
    if a.shape != b.shape:
        return False
    return b_and(*[_eq_cell(x, y) for x, y in zip(a.flat, b.flat)])


def _eq_cell(x, y):
    r = x == y
    if r is NotImplemented:
        raise Unsupported("equality between incomparable cells")
    if isinstance(r, np.bool_):
        return bool(r)
    return r


def _count_nonzero(a, axis=None, **k):
    a = to_obj(a)
    if axis is not None:
        raise Unsupported("count_nonzero with axis")
    acc = 0
    for x in a.flat:
        acc = acc + SymInt.from_bit(sym._zb(_truth(x)))
    return acc


def _where(cond, *xy):
    if not xy:
        return np.nonzero(plain(cond))  # forks natively on each cell's truth value
    x, y = xy
    return elementwise(lambda c, a, b: sym.b_ite(_truth(c), a, b), cond, x, y)


def _close_cell(rtol, atol):
    def f(a, b):
        if not (has_sym(a) or has_sym(b)):
            return bool(np.isclose(a, b, rtol=rtol, atol=atol))
        if isinstance(a, (SymComplex, complex)) or isinstance(b, (SymComplex, complex)):
            d = SymComplex.lift(a) - SymComplex.lift(b)
            bb = SymComplex.lift(b)
            # |d| <= atol + rtol*|b|  <-  modelled (soundly for atol-only use) as |d|^2 <= (atol + rtol*|b|)^2
            lhs = d.re * d.re + d.im * d.im
            if rtol == 0 or (z3.is_rational_value(z3.simplify(bb.re)) and z3.is_rational_value(z3.simplify(bb.im))):
                import math
                bmag = 0.0
                if rtol != 0:
                    bre, bim = z3.simplify(bb.re), z3.simplify(bb.im)
                    bmag = math.hypot(float(bre.as_fraction()), float(bim.as_fraction()))
                tol = sym._zr(atol + rtol * bmag)
                return sym._wrapb(lhs <= tol * tol)
            # |d| <= atol + rtol*|b| with m = |b| a fresh non-negative root (exact, QF_NRA)
            m = SymReal(bb.re * bb.re + bb.im * bb.im).sqrt()
            tol = sym._zr(atol) + sym._zr(rtol) * m.e
            return sym._wrapb(z3.And(tol >= 0, lhs <= tol * tol))
        d = SymReal.lift(a) - SymReal.lift(b)
        ab = abs(SymReal.lift(b))
        tol = sym._zr(atol) + sym._zr(rtol) * ab.e
        return sym._wrapb(z3.And(d.e <= tol, -d.e <= tol))

    return f


def _isclose(a, b, rtol=1e-05, atol=1e-08, **k):
    return elementwise(_close_cell(rtol, atol), a, b)


def _allclose(a, b, rtol=1e-05, atol=1e-08, **k):
    r = _isclose(a, b, rtol, atol)
    if isinstance(r, np.ndarray):
        return _all(r)
    return r


def _det(m):
    c = concrete_or_none(m)
    if c is not None:
        return np.linalg.det(c)
    m = to_obj(m)
    n = m.shape[0]
    assert m.shape == (n, n)

    def det(rows, cols):
        if not rows:
            return 1
        r = rows[0]
        acc = 0
        sign = 1
        for k, c in enumerate(cols):
            x = m[r, c]
            if not _is_zero(x):
                sub = det(rows[1:], cols[:k] + cols[k + 1:])
                acc = acc + (x * sub if sign == 1 else -(x * sub))
            sign = -sign
        return acc

    return det(tuple(range(n)), tuple(range(n)))


def _inv(m):
    c = concrete_or_none(m)
    if c is not None:
        return np.linalg.inv(c)
    # concretise by forking on every symbolic cell (sound: just more paths), then the REAL float inverse runs
    from .stubs import concretize_matrix

    return np.linalg.inv(concretize_matrix(m))


def _real(a):
    return elementwise(_real_cell, a) if isinstance(a, np.ndarray) else _real_cell(a)


def _imag(a):
    return elementwise(_imag_cell, a) if isinstance(a, np.ndarray) else _imag_cell(a)


def _conj(a):
    return elementwise(_conj_cell, a) if isinstance(a, np.ndarray) else _conj_cell(a)


def _round_cell(decimals):
    def f(x):
        if isinstance(x, SymInt):
            return x
        if is_sym(x):
            raise Unsupported("round of symbolic real")
        return round(x, decimals) if not isinstance(x, complex) else complex(round(x.real, decimals), round(x.imag, decimals))

    return f


def _round(a, decimals=0, out=None):
    return elementwise(_round_cell(decimals), a)


def _array_equiv(a, b):
    return _array_equal(a, b)


def _trace(a, offset=0, axis1=0, axis2=1, **k):
    a = to_obj(a)
    if a.ndim != 2 or offset != 0:
        return wrap(np.trace.__wrapped__(a, offset, axis1, axis2, **k))
    acc = 0
    for i in range(min(a.shape)):
        acc = acc + a[i, i]
    return acc


def _kron(a, b):
    a, b = to_obj(a), to_obj(b)
    if a.ndim == 1:
        a = a.reshape(1, -1)
        squeeze = True
    else:
        squeeze = False
    if b.ndim == 1:
        b = b.reshape(1, -1)
    (p, q), (r, s) = a.shape, b.shape
    out = np.empty((p * r, q * s), dtype=object)
    for i in range(p):
        for j in range(q):
            x = a[i, j]
            for k in range(r):
                for l in range(s):
                    y = b[k, l]
                    out[i * r + k, j * s + l] = 0 if (_is_zero(x) or _is_zero(y)) else x * y
    if squeeze and out.shape[0] == 1:
        out = out[0]
    return wrap(out)


def _sum(a, axis=None, **k):
    a = to_obj(a)
    if axis is None:
        acc = 0
        for x in a.flat:
            if not _is_zero(x):
                acc = acc + x
        return acc
    return wrap(np.add.reduce(a, axis=axis))


def _array_repr(a, *args, **k):
    return "SymArray(" + repr(plain(a).tolist()) + ")"


def _isreal(a):
    return elementwise(lambda x: _eq_cell(_imag_cell(x), 0), a)


def _nonzero(a):
    return np.ndarray.nonzero(plain(a))


def _flatnonzero(a):
    return np.ndarray.nonzero(plain(a).ravel())[0]


def _matrix_rank_gf2_unsupported(m, *a, **k):
    # concretise by forking on every symbolic cell (sound: just more paths), then the REAL numpy routine runs
    from .stubs import concretize_matrix

    return np.linalg.matrix_rank(concretize_matrix(m), *a, **k)


def _copy(a, order="K", subok=False):
    if isinstance(a, np.ndarray):
        return wrap(np.array(plain(a), dtype=a.dtype, copy=True))
    return np.copy(a)


_FUNCTION_MODELS = {
    np.copy: _copy,
    np.all: _all,
    np.any: _any,
    np.array_equal: _array_equal,
    np.array_equiv: _array_equiv,
    np.count_nonzero: _count_nonzero,
    np.where: _where,
    np.isclose: _isclose,
    np.allclose: _allclose,
    np.linalg.det: _det,
    np.linalg.inv: _inv,
    np.real: _real,
    np.imag: _imag,
    np.conj: _conj,
    np.conjugate: _conj,
    np.round: _round,
    np.around: _round,
    np.trace: _trace,
    np.kron: _kron,
    np.sum: _sum,
    np.array_repr: _array_repr,
    np.array_str: _array_repr,
    np.isreal: _isreal,
    np.nonzero: _nonzero,
    np.flatnonzero: _flatnonzero,
    np.linalg.matrix_rank: _matrix_rank_gf2_unsupported,
}


# ------------------------------------------------------------------------------------------------------
# ndarray dispatch for symbolic scalars:  scalar (op) ndarray  and  ndarray (op) scalar
# ------------------------------------------------------------------------------------------------------
_BIN = ["add", "sub", "mul", "truediv", "floordiv", "mod", "xor", "and", "or", "pow", "eq", "ne", "lt", "le", "gt", "ge"]


def _install_scalar_dispatch(cls):
    cls.__array_ufunc__ = None  # numpy arrays/scalars return NotImplemented from their binops -> our reflected op
    for name in _BIN:
        for refl in (False, True):
            dunder = f"__{'r' if refl else ''}{name}__"
            if name in ("eq", "ne", "lt", "le", "gt", "ge") and refl:
                continue
            orig = getattr(cls, dunder, None)
            if orig is None:
                continue
            op = getattr(operator, name if name not in ("and", "or") else name + "_")

            def make(orig, op, refl):
                def method(self, o):
                    if isinstance(o, np.ndarray):
                        if refl:
                            return elementwise(lambda b: op(b, self), o)
                        return elementwise(lambda b: op(self, b), o)
                    if isinstance(o, np.generic):
                        o = o.item()
                    return orig(self, o)

                return method

            setattr(cls, dunder, make(orig, op, refl))


for _cls in (SymInt, SymBool, SymReal, SymComplex):
    _install_scalar_dispatch(_cls)
# comparison operators on a class that defines __eq__ need an explicit __hash__
SymInt.__hash__ = lambda self: hash(sym.session().concretize_int(self))
SymBool.__hash__ = lambda self: hash(bool(self))
SymReal.__hash__ = lambda self: (_ for _ in ()).throw(Unsupported("hash of a symbolic real"))
SymComplex.__hash__ = lambda self: (_ for _ in ()).throw(Unsupported("hash of a symbolic complex"))


# ------------------------------------------------------------------------------------------------------
# the `np` proxy
# ------------------------------------------------------------------------------------------------------
def sym_zeros(shape, dtype=None, **k):
    return np.zeros(shape, dtype=object).view(SymArray)


def sym_ones(shape, dtype=None, **k):
    return np.ones(shape, dtype=object).view(SymArray)


def sym_eye(n, m=None, k=0, dtype=None, **kw):
    return np.eye(n, m, k, dtype=object).view(SymArray)


def sym_array(obj, dtype=None, **k):
    if isinstance(obj, np.ndarray):
        if obj.dtype == object:
            return obj.copy().view(SymArray)
        if dtype is not None:
            return np.array(obj, dtype=dtype, **k)
        return np.array(obj, **k)
    try:
        probe = np.array(obj, dtype=object)
    except ValueError:
        return np.array(obj, dtype=dtype, **k)
    if has_sym(probe):
        return probe.view(SymArray)
    return wrap(np.array(obj, dtype=dtype, **k))


class RandomProxy:
    """np.random inside instrumented modules: every draw is a fresh symbolic outcome constrained only by the
    documented contract of the real call (DESIGN 2.5)."""

    def __getattr__(self, name):
        return getattr(np.random, name)

    def randint(self, low, high=None, size=None, **k):
        if high is None:
            low, high = 0, low
        if size is not None:
            raise Unsupported("np.random.randint with size")
        s = sym.session()
        if (low, high) == (0, 2):
            return s.outcome("randint(0,2)")
        raise Unsupported(f"np.random.randint({low},{high})")

    def choice(self, a, size=None, replace=True, p=None):
        s = sym.session()
        if size is not None:
            raise Unsupported("np.random.choice with size")
        vals = list(a) if not isinstance(a, int) else list(range(a))
        if len(vals) != 2:
            raise Unsupported("np.random.choice over != 2 values")
        o = s.outcome("choice")
        if p is not None:
            # contract: an outcome of probability 0 is never drawn; "0" includes float rounding noise: an outcome whose
            # probability is below 1e-12 has no practical chance to be drawn and is excluded as well
            p0, p1 = p[0], p[1]
            s.assume(sym.b_implies(o == 0, p0 > 1e-12))
            s.assume(sym.b_implies(o == 1, p1 > 1e-12))
        if vals == [0, 1]:
            return o
        return sym.b_ite(o == 1, vals[1], vals[0])


def _scalar_aware(real_fn, cell_fn):
    def f(*args, **kwargs):
        if any(is_sym(a) or isinstance(a, SymRatio) for a in args):
            return elementwise(cell_fn, *args)
        return real_fn(*args, **kwargs)

    return f


class NpProxy:
    def __init__(self):
        self.random = RandomProxy()
        self.zeros = sym_zeros
        self.ones = sym_ones
        self.eye = sym_eye
        self.identity = lambda n, dtype=None: sym_eye(n)
        self.array = sym_array
        # numpy functions applied to symbolic SCALARS (arrays dispatch through SymArray themselves)
        self.sqrt = _scalar_aware(np.sqrt, _sqrt_cell)
        self.abs = self.absolute = _scalar_aware(np.abs, _abs_cell)
        self.real = _scalar_aware(np.real, _real_cell)
        self.imag = _scalar_aware(np.imag, _imag_cell)
        self.conj = self.conjugate = _scalar_aware(np.conjugate, _conj_cell)
        self.equal = _scalar_aware(np.equal, _eq_cell)

    def isclose(self, a, b, rtol=1e-05, atol=1e-08, **k):
        if has_sym(a) or has_sym(b):
            return _isclose(a, b, rtol, atol)
        return np.isclose(a, b, rtol=rtol, atol=atol, **k)

    def allclose(self, a, b, rtol=1e-05, atol=1e-08, **k):
        if has_sym(a) or has_sym(b):
            return _allclose(a, b, rtol, atol)
        return np.allclose(a, b, rtol=rtol, atol=atol, **k)

    def __getattr__(self, name):
        return getattr(np, name)


NP_PROXY = NpProxy()
