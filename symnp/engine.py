"""
symnp.engine -- Session (solver, path condition, fork points, obligations) and the DFS / parallel explorer.

A *harness* is an object with
    declare(S)      called once per Session: creates the symbolic inputs (S.bit / S.int_ / S.real), states the
                    precondition with S.assume(...) and returns an opaque "spec";
    body(S, spec)   called once per explored path: builds fresh input arrays from the spec, runs the REAL
                    graphiq code, and states obligations with S.prove(name, claim).
The same two functions are used by ConcreteSession (replay of a solver model on unpatched code).
"""
from __future__ import annotations

import itertools
import json
import sys

if hasattr(sys, "set_int_max_str_digits"):
    sys.set_int_max_str_digits(0)  # solver models of real variables can be rationals with thousands of digits
import multiprocessing as mp
import os
import queue
import signal
import time
import traceback
from fractions import Fraction

import numpy as np
import z3

from . import sym
from .sym import SymBool, SymInt, SymReal, SymComplex, Unsupported


class PathAbort(BaseException):
    """Abandon the current path (infeasible, budget, inconclusive)."""

    def __init__(self, reason, inconclusive=True):
        super().__init__(reason)
        self.reason = reason
        self.inconclusive = inconclusive
        s = sym._SESSION
        if s is not None and getattr(s, "dead", None) is None and reason != "violation":
            # survive bare `except:` clauses in the code under test
            s.dead = reason
            s.dead_inconclusive = inconclusive


class PathTimeout(BaseException):
    pass


class _SkipTimeoutReport(Exception):
    pass


class OutsideClaim(BaseException):
    """The path entered code that the harness declares outside its claim (e.g. an RNG trial loop).  Counted and
    reported in the evidence as `outside_claim_paths`; neither success nor failure."""


class Obl:
    __slots__ = ("name", "status", "model", "detail", "t")

    def __init__(self, name, status, model=None, detail=None, t=0.0):
        self.name, self.status, self.model, self.detail, self.t = name, status, model, detail, t

    def as_dict(self):
        return {"name": self.name, "status": self.status, "model": self.model, "detail": self.detail}


class PathResult:
    def __init__(self):
        self.decisions = []  # list[(taken: bool, open: bool)]
        self.obligations = []  # list[Obl]
        self.status = "ok"  # ok | inconclusive | infeasible
        self.reason = None
        self.pc_sample = None
        self.info = {}


class Session:
    symbolic = True

    def __init__(self, solver_timeout_ms=120000, seed=0, arith_solver=None):
        self.solver = z3.Solver()
        self.solver.set("timeout", solver_timeout_ms)
        arith = os.environ.get("SYMNP_ARITH_SOLVER", "") or arith_solver
        if arith:
            # measured on the symplectic (XOR-heavy) obligations of the n=4 measurement harness: with arith.solver=2
            # (z3's legacy arithmetic core) queries are decided in 4-9 s that the default configuration does not decide
            # in 60 s; for the real-arithmetic (NRA) harnesses the default core is better, so this is per harness
            z3.set_param("smt.arith.solver", int(arith))
        if seed:
            self.solver.set("random_seed", seed % (2**30))
        self.vars = {}  # name -> (kind, z3 const)
        self.declared = False
        self.model = None
        self.prefix = []
        self.decisions = []
        self.pc = []
        self.obligations = []
        self.dead = None
        self.n_outcomes = 0
        self.n_sqrt = 0
        self.n_aux = 0
        self.outcome_vars = []
        self.aux_vars = []
        self.stats = {"checks": 0, "solver_s": 0.0, "sat": 0, "unsat": 0, "unknown": 0, "forks": 0}
        self.summaries = {}
        self.info = {}
        self.max_decisions = 100000
        self.stop_on_violation = True
        self.smt2_budget = 0
        self.smt2_samples = []

    # -- context management (global active session for fork points) ------------------------------------
    def __enter__(self):
        self._prev = sym._SESSION
        sym._set_session(self)
        return self

    def __exit__(self, *a):
        sym._set_session(self._prev)
        return False

    # -- inputs ----------------------------------------------------------------------------------------
    def bit(self, name):
        if name not in self.vars:
            self.vars[name] = ("bit", z3.Bool(name))
        return SymInt.from_bit(self.vars[name][1])

    def bits(self, name, *shape):
        from .arr import SymArray

        a = np.empty(shape, dtype=object)
        for idx in itertools.product(*[range(k) for k in shape]):
            a[idx] = self.bit(name + "_" + "_".join(map(str, idx)))
        return a.view(SymArray)

    def int_(self, name, lo=None, hi=None):
        if name not in self.vars:
            v = z3.Int(name)
            self.vars[name] = ("int", v)
            if lo is not None:
                self._assert(v >= lo)
            if hi is not None:
                self._assert(v <= hi)
        return SymInt.from_term(self.vars[name][1])

    def real(self, name):
        if name not in self.vars:
            self.vars[name] = ("real", z3.Real(name))
        return SymReal(self.vars[name][1])

    def complex_(self, name):
        re = self.real(name + "_re")
        im = self.real(name + "_im")
        return SymComplex(re.e, im.e)

    def aux_bit(self, label="aux"):
        """fresh free 0/1 variable of the ORACLE side (e.g. an outcome of the reference simulator): obligations are
        proved for all of its values; its model value is stored for the replay"""
        k = len(self.aux_vars)
        v = z3.Bool(f"aux!{k}")
        self.aux_vars.append((f"aux!{k}", v, label))
        return SymInt.from_bit(v)

    def outcome(self, label="outcome"):
        """fresh symbolic 0/1 value standing for one RNG draw (DESIGN 2.5); not a declared input"""
        k = self.n_outcomes
        self.n_outcomes += 1
        v = z3.Bool(f"rng!{k}")
        self.outcome_vars.append((f"rng!{k}", v, label))
        return SymInt.from_bit(v)

    # -- assumptions -----------------------------------------------------------------------------------
    def _assert(self, e):
        self.solver.add(e)
        self.model = None

    def assume(self, cond):
        c = sym._zb(cond)
        if isinstance(c, bool):
            if not c:
                raise PathAbort("assumption is constant False", inconclusive=False)
            return
        self._assert(c)
        if self.declared:
            self.pc.append(("assume", c))
            r = self._check()
            if r == z3.unsat:
                raise PathAbort("assumption infeasible on this path", inconclusive=False)
            if r == z3.unknown:
                raise PathAbort("solver unknown on assumption")

    # -- solver plumbing -------------------------------------------------------------------------------
    def _check(self, *extra):
        t = time.time()
        r = self.solver.check(*extra)
        dt = time.time() - t
        self.stats["checks"] += 1
        self.stats["solver_s"] += dt
        self.stats[str(r)] += 1
        if r == z3.sat and not extra:
            self.model = self.solver.model()
        return r

    def _ensure_model(self):
        if self.model is None:
            r = self._check()
            if r == z3.unsat:
                raise PathAbort("path condition infeasible", inconclusive=False)
            if r == z3.unknown:
                raise PathAbort("solver unknown on path condition")
        return self.model

    def entails(self, cond):
        c = sym._zb(cond)
        if isinstance(c, bool):
            return c
        r = self._check(z3.Not(c))
        if r == z3.unknown:
            raise PathAbort("solver unknown in entailment query")
        return r == z3.unsat

    def branch(self, cond):
        """The fork point.  cond: z3 Bool.  Returns the python bool taken on this path."""
        if isinstance(cond, bool):
            return cond
        if z3.is_true(cond):
            return True
        if z3.is_false(cond):
            return False
        if self.dead is not None:
            raise PathAbort(self.dead)
        k = len(self.decisions)
        if k >= self.max_decisions:
            self.dead = "decision budget exhausted"
            raise PathAbort(self.dead)
        if k < len(self.prefix):
            d = self.prefix[k]
            self.decisions.append((d, False))
            self.solver.add(cond if d else z3.Not(cond))
            self.pc.append(("branch", cond, d))
            self.model = None
            return d
        m = self._ensure_model()
        v = m.eval(cond, model_completion=True)
        if z3.is_true(v):
            d = True
        elif z3.is_false(v):
            d = False
        else:  # could not evaluate: ask the solver
            r = self._check(cond)
            if r == z3.unknown:
                self.dead = "solver unknown at fork"
                raise PathAbort(self.dead)
            d = r == z3.sat
            self.model = None
        taken, other = (cond, z3.Not(cond)) if d else (z3.Not(cond), cond)
        r = self._check(other)
        if r == z3.unknown:
            self.dead = "solver unknown at fork"
            raise PathAbort(self.dead)
        is_open = r == z3.sat
        if is_open:
            self.stats["forks"] += 1
        self.decisions.append((d, is_open))
        self.solver.add(taken)
        self.pc.append(("branch", cond, d))
        # the cached model still satisfies the taken side
        return d

    def concretize_int(self, x):
        """fork over the feasible values of a symbolic integer (sound; just more paths)"""
        if not isinstance(x, SymInt):
            return int(x)
        if x.bit is not None:
            return 1 if self.branch(x.bit) else 0
        for _ in range(4096):
            m = self._ensure_model()
            v = m.eval(x.e, model_completion=True)
            if not z3.is_int_value(v):
                raise Unsupported("cannot evaluate symbolic integer in model")
            val = v.as_long()
            if self.branch(x.e == val):
                return val
        raise Unsupported("integer concretisation did not terminate")

    def note_division(self, den):
        """z3's x/0 is unconstrained: every division by a symbolic real adds `den != 0` as a side condition,
        which must be entailed (or is assumed and counted) -- DESIGN 5/C01."""
        if z3.is_rational_value(den):
            if den.numerator_as_long() == 0:
                raise ZeroDivisionError("division by zero")
            return
        if self.branch(den != 0):
            return
        raise ZeroDivisionError("symbolic division by zero on this path")

    def fresh_sqrt(self, x):
        k = self.n_sqrt
        self.n_sqrt += 1
        s = z3.Real(f"sqrt!{k}")
        xe = sym._zr(x)
        self.solver.add(s >= 0, s * s == xe)
        self.pc.append(("sqrt", s, xe))
        self.model = None
        return SymReal(s)

    def fresh_bool(self, hint="tmp"):
        self.n_aux += 1
        return z3.Bool(f"{hint}!{self.n_aux}")

    # -- obligations -----------------------------------------------------------------------------------
    def model_values(self, m):
        out = {}
        for name, (kind, v) in self.vars.items():
            val = m.eval(v, model_completion=True)
            if kind == "bit":
                out[name] = 1 if z3.is_true(val) else 0
            elif kind == "int":
                out[name] = val.as_long()
            else:
                try:
                    fr = val.as_fraction()
                    out[name] = [int(fr.numerator), int(fr.denominator)]
                except Exception:
                    try:  # algebraic number: rational approximation to 30 digits
                        fr = val.approx(30).as_fraction()
                        out[name] = [int(fr.numerator), int(fr.denominator)]
                    except Exception:
                        out[name] = str(val)
        rng = []
        for name, v, label in self.outcome_vars:
            val = m.eval(v, model_completion=True)
            rng.append(1 if z3.is_true(val) else 0)
        aux = [1 if z3.is_true(m.eval(v, model_completion=True)) else 0 for _, v, _ in self.aux_vars]
        return {"inputs": out, "rng": rng, "aux": aux}

    def prove(self, name, claim, detail=None):
        """Obligation: `claim` must hold for every value of the symbolic variables consistent with this path."""
        if self.dead is not None:
            raise PathAbort(self.dead)
        t = time.time()
        c = sym._zb(claim)
        if isinstance(c, bool):
            if c:
                self.obligations.append(Obl(name, "discharged", detail="constant"))
                return True
            m = self._ensure_model()
            self.obligations.append(Obl(name, "violated", self.model_values(m), detail or "claim is constant False"))
            if self.stop_on_violation:
                raise PathAbort("violation", inconclusive=False)
            return False
        r = self._check(z3.Not(c))
        if r == z3.unsat:
            self.obligations.append(Obl(name, "discharged", t=time.time() - t))
            if self.smt2_budget > 0 and (self.stats["checks"] % 7 == 0):
                try:
                    self.smt2_samples.append((name, self.smt2_of(claim)))
                    self.smt2_budget -= 1
                except Exception:
                    pass
            return True
        if r == z3.sat:
            m = self.solver.model()
            self.obligations.append(Obl(name, "violated", self.model_values(m), detail, t=time.time() - t))
            if self.stop_on_violation:
                raise PathAbort("violation", inconclusive=False)
            return False
        self.obligations.append(Obl(name, "unknown", detail=self.solver.reason_unknown(), t=time.time() - t))
        dump = os.environ.get("SYMNP_DUMP_UNKNOWN")
        if dump:  # debugging aid: keep the query the solver could not decide
            try:
                os.makedirs(dump, exist_ok=True)
                with open(os.path.join(dump, f"unknown_{os.getpid()}_{len(self.obligations)}.smt2"), "w") as fh:
                    fh.write(self.smt2_of(claim))
            except Exception:
                pass
        return None

    def prove_all(self, name, claims):
        """one obligation per claim (cheaper for the solver than a big conjunction -- DESIGN 9)"""
        ok = True
        for i, c in enumerate(claims):
            if self.prove(f"{name}[{i}]", c) is not True:
                ok = False
        return ok

    def witness(self, name, cond):
        """Vacuity guard: `cond` must be satisfiable on this path (expected `sat`)."""
        c = sym._zb(cond)
        if isinstance(c, bool):
            st = "witnessed" if c else "vacuous"
        else:
            r = self._check(c)
            st = {"sat": "witnessed", "unsat": "vacuous"}.get(str(r), "unknown")
        self.obligations.append(Obl(name, st))
        return st == "witnessed"

    def fail(self, name, detail):
        m = self._ensure_model()
        self.obligations.append(Obl(name, "violated", self.model_values(m), detail))
        if self.stop_on_violation:
            raise PathAbort("violation", inconclusive=False)

    def smt2_of(self, claim):
        """SMT-LIB2 text of (assumptions /\\ path condition /\\ not claim) for cross-checking by other solvers"""
        s = z3.Solver()
        for a in self.solver.assertions():
            s.add(a)
        s.add(z3.Not(sym._zb(claim)))
        return "(set-logic ALL)\n" + s.to_smt2()

    # -- one path --------------------------------------------------------------------------------------
    def run_path(self, harness, spec, prefix):
        res = PathResult()
        self.prefix = list(prefix)
        self.decisions = []
        self.pc = []
        self.obligations = []
        self.dead = None
        self.dead_inconclusive = True
        self.n_outcomes = 0
        self.outcome_vars = []
        self.aux_vars = []
        self.model = None
        self.info = {}
        self.solver.push()
        limit = getattr(harness, "path_timeout_s", 180)
        timed_out = []

        def on_alarm(signum, frame):
            timed_out.append(1)
            raise PathTimeout(f"path exceeded {limit}s")

        old_handler = signal.signal(signal.SIGALRM, on_alarm)
        signal.setitimer(signal.ITIMER_REAL, limit)
        try:
            with self:
                harness.body(self, spec)
                if self.obligations and self.dead is None:
                    # vacuity guard (DESIGN 4-iii): the twin obligation `False` must be violated here, i.e. the
                    # assumptions and the path condition reaching the obligations are satisfiable
                    r = self._check()
                    self.obligations.append(Obl("reachable", "witnessed" if r == z3.sat else ("vacuous" if r == z3.unsat else "unknown")))
            if self.dead is not None:
                if getattr(self, "dead_inconclusive", True):
                    res.status, res.reason = "inconclusive", self.dead
                else:
                    res.status, res.reason = "infeasible", self.dead
        except PathAbort as e:
            if e.inconclusive:
                res.status, res.reason = "inconclusive", e.reason
            elif e.reason == "violation":
                res.status = "ok"
            else:
                res.status, res.reason = "infeasible", e.reason
        except OutsideClaim as e:
            res.status, res.reason = "outside", str(e)
        except PathTimeout as e:
            # a python-level loop of the code under test did not finish: report it as a violation candidate
            # (the concrete replay decides whether the real code really does not terminate on the model's input);
            # if the time went into the SOLVER instead, the path is simply undecided
            where = _where()
            if "z3" in where:
                signal.setitimer(signal.ITIMER_REAL, 0)
                res.status, res.reason = "inconclusive", f"solver did not answer within the path time limit ({limit}s)"
                raise_again = False
            try:
                if "z3" in where:
                    raise _SkipTimeoutReport()
                signal.setitimer(signal.ITIMER_REAL, 0)
                m = self._ensure_model()
                self.obligations.append(Obl("terminates", "violated", self.model_values(m), f"{e} @ {_where()}"))
            except _SkipTimeoutReport:
                pass
            except BaseException as e2:  # noqa
                res.status, res.reason = "inconclusive", f"path time limit ({e2})"
        except Unsupported as e:
            res.status, res.reason = "inconclusive", "Unsupported: " + str(e) + " @ " + _where()
        except Exception as e:  # uncaught exception from the code under test on a feasible path
            if self.dead is not None:
                res.status, res.reason = "inconclusive", self.dead
            else:
                try:
                    m = self._ensure_model()
                    self.obligations.append(
                        Obl("no-exception", "violated", self.model_values(m), f"{type(e).__name__}: {e} @ {_where()}")
                    )
                except PathAbort as e2:
                    res.status, res.reason = "inconclusive", e2.reason
        finally:
            if len(self.pc) and res.pc_sample is None:
                try:
                    res.pc_sample = [str(p[1])[:120] + ("" if p[0] != "branch" else f" = {p[2]}") for p in self.pc[:6]]
                except Exception:
                    pass
            signal.setitimer(signal.ITIMER_REAL, 0)
            signal.signal(signal.SIGALRM, old_handler)
            self.solver.pop()
            self.model = None
        res.decisions = list(self.decisions)
        res.obligations = list(self.obligations)
        res.info = dict(self.info)
        return res


def _where():
    tb = traceback.extract_tb(__import__("sys").exc_info()[2])
    for fr in reversed(tb):
        if "/symnp/" not in fr.filename:
            return f"{os.path.basename(fr.filename)}:{fr.lineno}"
    if tb:
        fr = tb[-1]
        return f"{os.path.basename(fr.filename)}:{fr.lineno}"
    return "?"


# ======================================================================================================
# Concrete replay session: same harness code, python ints / numpy arrays, unpatched graphiq
# ======================================================================================================
class ConcreteFailure(Exception):
    pass


class ConcreteSession:
    symbolic = False

    def __init__(self, model):
        self.inputs = dict(model.get("inputs", {}))
        self.rng = list(model.get("rng", []))
        self.rng_pos = 0
        self.aux = list(model.get("aux", []))
        self.aux_pos = 0
        self.failed = []
        self.checked = 0
        self.assumption_failed = None
        self.info = {}
        self.declared = False
        self.summaries = {}

    def __enter__(self):
        return self

    def __exit__(self, *a):
        return False

    def bit(self, name):
        return int(self.inputs.get(name, 0))

    def bits(self, name, *shape):
        a = np.zeros(shape, dtype=int)
        for idx in itertools.product(*[range(k) for k in shape]):
            a[idx] = self.bit(name + "_" + "_".join(map(str, idx)))
        return a

    def int_(self, name, lo=None, hi=None):
        return int(self.inputs.get(name, lo if lo is not None else 0))

    def real(self, name):
        v = self.inputs.get(name, [0, 1])
        if isinstance(v, list):
            return float(Fraction(int(v[0]), int(v[1])))
        if isinstance(v, str):
            return float(Fraction(v.replace("?", "")))
        return float(v)

    def complex_(self, name):
        return complex(self.real(name + "_re"), self.real(name + "_im"))

    def outcome(self, label="outcome"):
        if self.rng_pos < len(self.rng):
            v = self.rng[self.rng_pos]
        else:
            v = 0
        self.rng_pos += 1
        return int(v)

    def aux_bit(self, label="aux"):
        v = self.aux[self.aux_pos] if self.aux_pos < len(self.aux) else 0
        self.aux_pos += 1
        return int(v)

    def assume(self, cond):
        if not bool(cond):
            self.assumption_failed = "model does not satisfy a harness assumption"
            raise ConcreteFailure(self.assumption_failed)

    def entails(self, cond):
        return bool(cond)

    def prove(self, name, claim, detail=None):
        self.checked += 1
        if not bool(claim):
            self.failed.append((name, detail))
            return False
        return True

    def prove_all(self, name, claims):
        ok = True
        for i, c in enumerate(claims):
            ok = self.prove(f"{name}[{i}]", c) and ok
        return ok

    def witness(self, name, cond):
        return True

    def fail(self, name, detail):
        self.checked += 1
        self.failed.append((name, detail))

    def smt2_of(self, claim):
        return ""


def replay_concrete(harness, model):
    """Run the harness on the concrete values of a solver model against *unpatched* graphiq.
    Returns (reproduced: bool, failures, error)"""
    S = ConcreteSession(model)
    import numpy.random as npr

    saved = (npr.randint, npr.choice)

    def randint(low, high=None, size=None, **k):
        if high is None:
            low, high = 0, low
        if size is None and (low, high) == (0, 2):
            return S.outcome("randint(0,2)")
        return saved[0](low, high, size, **k)

    def choice(a, size=None, replace=True, p=None):
        vals = list(a) if not isinstance(a, int) else list(range(a))
        if size is None and len(vals) == 2:
            o = S.outcome("choice")
            if p is not None and not (p[o] > 1e-12):
                o = 1 - o  # contract of the real call: an outcome of probability 0 is never drawn
            return vals[o]
        return saved[1](a, size, replace, p)

    # the only environment control in a replay: RNG draws return the solver model's outcomes, in order
    npr.randint, npr.choice = randint, choice
    limit = getattr(harness, "replay_timeout_s", 60)

    def on_alarm(signum, frame):
        raise PathTimeout(f"replay exceeded {limit}s")

    old_handler = signal.signal(signal.SIGALRM, on_alarm)
    signal.setitimer(signal.ITIMER_REAL, limit)
    try:
        spec = harness.declare(S)
        S.declared = True
        harness.body(S, spec)
    except PathTimeout as e:
        S.failed.append(("terminates", f"{e}: the real code did not finish on this input"))
    except ConcreteFailure as e:
        return False, S.failed, str(e)
    except Exception as e:
        tb = traceback.extract_tb(__import__("sys").exc_info()[2])
        where = "?"
        for fr in reversed(tb):
            if "/repo/" in fr.filename:
                where = f"{os.path.basename(fr.filename)}:{fr.lineno}"
                break
        S.failed.append(("no-exception", f"{type(e).__name__}: {e} @ {where}"))
    finally:
        signal.setitimer(signal.ITIMER_REAL, 0)
        signal.signal(signal.SIGALRM, old_handler)
        npr.randint, npr.choice = saved
    return bool(S.failed), S.failed, None


# ======================================================================================================
# Explorer
# ======================================================================================================
class Totals:
    def __init__(self):
        self.paths = 0
        self.infeasible = 0
        self.inconclusive = 0
        self.inconclusive_reasons = {}
        self.outside = 0
        self.outside_reasons = {}
        self.obligations = 0
        self.discharged = 0
        self.unknown = 0
        self.violations = []  # list of dict(name, model, detail, prefix)
        self.witnessed = 0
        self.vacuous = 0
        self.max_depth = 0
        self.forks = 0
        self.stats = {"checks": 0, "solver_s": 0.0, "sat": 0, "unsat": 0, "unknown": 0, "forks": 0}
        self.samples = []
        self.obl_names = {}
        self.info = {}
        self.truncated = False

    def add_path(self, res, prefix):
        if res.status == "infeasible":
            self.infeasible += 1
            return
        if res.status == "outside":
            self.outside += 1
            self.outside_reasons[res.reason] = self.outside_reasons.get(res.reason, 0) + 1
            self.paths += 1
            return
        self.paths += 1
        self.max_depth = max(self.max_depth, len(res.decisions))
        if res.status == "inconclusive":
            self.inconclusive += 1
            self.inconclusive_reasons[res.reason] = self.inconclusive_reasons.get(res.reason, 0) + 1
        for o in res.obligations:
            if o.status in ("witnessed", "vacuous"):
                if o.status == "witnessed":
                    self.witnessed += 1
                else:
                    self.vacuous += 1
                continue
            self.obligations += 1
            base = o.name.split("[")[0]
            self.obl_names[base] = self.obl_names.get(base, 0) + 1
            if o.status == "discharged":
                self.discharged += 1
            elif o.status == "unknown":
                self.unknown += 1
            elif o.status == "violated":
                self.violations.append(
                    {"name": o.name, "model": o.model, "detail": o.detail, "decisions": [d for d, _ in res.decisions]}
                )
        for k, v in res.info.items():
            if isinstance(v, (int, float)):
                self.info[k] = self.info.get(k, 0) + v
            else:
                self.info.setdefault(k, [])
                if len(self.info[k]) < 8 and v not in self.info[k]:
                    self.info[k].append(v)
        if len(self.samples) < 4 and res.obligations:
            self.samples.append(
                {
                    "path_condition_head": res.pc_sample,
                    "decisions": "".join("1" if d else "0" for d, _ in res.decisions)[:64],
                    "obligations": [o.name for o in res.obligations[:6]],
                    "n_obligations": len(res.obligations),
                }
            )

    def merge(self, o):
        self.paths += o.paths
        self.infeasible += o.infeasible
        self.inconclusive += o.inconclusive
        for k, v in o.inconclusive_reasons.items():
            self.inconclusive_reasons[k] = self.inconclusive_reasons.get(k, 0) + v
        self.outside += o.outside
        for k, v in o.outside_reasons.items():
            self.outside_reasons[k] = self.outside_reasons.get(k, 0) + v
        self.obligations += o.obligations
        self.discharged += o.discharged
        self.unknown += o.unknown
        self.violations += o.violations
        self.witnessed += o.witnessed
        self.vacuous += o.vacuous
        self.max_depth = max(self.max_depth, o.max_depth)
        for k, v in o.stats.items():
            self.stats[k] = self.stats.get(k, 0) + v
        for k, v in o.obl_names.items():
            self.obl_names[k] = self.obl_names.get(k, 0) + v
        for k, v in o.info.items():
            if isinstance(v, (int, float)):
                self.info[k] = self.info.get(k, 0) + v
            else:
                self.info.setdefault(k, [])
                for x in v:
                    if len(self.info[k]) < 8 and x not in self.info[k]:
                        self.info[k].append(x)
        for s in o.samples:
            if len(self.samples) < 4:
                self.samples.append(s)
        self.truncated = self.truncated or o.truncated


def _dfs(S, harness, spec, stack, totals, max_paths=None, deadline=None, stop_on_first_violation=False):
    """depth-first exploration of the prefixes in `stack`; returns the unexplored remainder of the stack"""
    n = 0
    while stack:
        if (max_paths is not None and n >= max_paths) or (deadline is not None and time.time() > deadline):
            break
        prefix = stack.pop()
        res = S.run_path(harness, spec, prefix)
        n += 1
        totals.add_path(res, prefix)
        decs = res.decisions
        for i in range(len(decs) - 1, len(prefix) - 1, -1):
            d, is_open = decs[i]
            if is_open:
                stack.append([x for x, _ in decs[:i]] + [not d])
        if stop_on_first_violation and totals.violations:
            break
    return stack


def _make_session(harness, seed, solver_timeout_ms):
    S = Session(solver_timeout_ms=solver_timeout_ms, seed=seed, arith_solver=getattr(harness, "arith_solver", None))
    with S:
        spec = harness.declare(S)
    S.declared = True
    r = S._check()
    if r != z3.sat:
        raise RuntimeError(f"harness {harness.name}: assumptions are {r} (vacuous or undecided)")
    return S, spec


def sample_models(S, k=2, seed=0):
    """k pseudo-random models of the harness assumptions (random values forced on a few declared variables)"""
    import random

    rng = random.Random(seed + 12345)
    names = [n for n, (kind, v) in S.vars.items() if kind == "bit"]
    out = []
    tries = 0
    while len(out) < k and tries < 6 * k:
        tries += 1
        extra = []
        for n in rng.sample(names, min(len(names), 6)):
            v = S.vars[n][1]
            extra.append(v if rng.random() < 0.5 else z3.Not(v))
        r = S.solver.check(*extra)
        if r == z3.sat:
            m = S.solver.model()
            mv = S.model_values(m)
            mv["rng"] = [rng.randint(0, 1) for _ in range(16)]
            mv["aux"] = [rng.randint(0, 1) for _ in range(64)]
            out.append(mv)
    return out


def explore_serial(harness, seed=0, solver_timeout_ms=120000, max_paths=None, time_budget=None,
                   stop_on_first_violation=False):
    t0 = time.time()
    totals = Totals()
    S, spec = _make_session(harness, seed, solver_timeout_ms)
    deadline = None if time_budget is None else t0 + time_budget
    rest = _dfs(S, harness, spec, [[]], totals, max_paths, deadline, stop_on_first_violation)
    if rest and not (stop_on_first_violation and totals.violations):
        totals.truncated = True
    for k, v in S.stats.items():
        totals.stats[k] = totals.stats.get(k, 0) + v
    totals.wall_s = time.time() - t0
    return totals


def _worker(harness, seed, solver_timeout_ms, tasks, results, chunk_paths, chunk_s):
    try:
        from . import install

        if hasattr(harness, "install"):
            harness.install()
        S, spec = _make_session(harness, seed, solver_timeout_ms)
    except BaseException as e:  # noqa
        results.put(("fatal", f"{type(e).__name__}: {e}\n{traceback.format_exc()}"))
        return
    while True:
        item = tasks.get()
        if item is None:
            break
        totals = Totals()
        before = dict(S.stats)
        try:
            rest = _dfs(S, harness, spec, [item], totals, chunk_paths, time.time() + chunk_s)
        except BaseException as e:  # noqa
            results.put(("fatal", f"{type(e).__name__}: {e}\n{traceback.format_exc()}"))
            return
        for k, v in S.stats.items():
            totals.stats[k] = v - before.get(k, 0)
        results.put(("done", totals, rest))


def explore_parallel(harness, workers=None, seed=0, solver_timeout_ms=120000, time_budget=None,
                     chunk_paths=32, chunk_s=20.0, stop_on_first_violation=False, max_paths=None):
    """Work-sharing exploration: the coordinator owns the global stack of decision prefixes; each worker takes
    one prefix, explores up to `chunk_paths` paths below it depth-first and hands the remainder back."""
    workers = workers or min(16, os.cpu_count() or 1)
    if workers <= 1:
        return explore_serial(harness, seed, solver_timeout_ms, max_paths, time_budget, stop_on_first_violation)
    t0 = time.time()
    ctx = mp.get_context("fork")
    tasks, results = ctx.Queue(), ctx.Queue()
    procs = [
        ctx.Process(target=_worker, args=(harness, seed, solver_timeout_ms, tasks, results, chunk_paths, chunk_s),
                    daemon=True)
        for _ in range(workers)
    ]
    for p in procs:
        p.start()
    totals = Totals()
    pending = [[]]
    outstanding = 0
    fatal = None
    stop = False
    try:
        import random as _random
        rng = _random.Random(seed)
        shuffle = bool(getattr(harness, "partial_ok", False))
        while pending or outstanding:
            while pending and outstanding < 4 * workers and not stop:
                # budgeted (partial) explorations pick prefixes pseudo-randomly (seeded) to spread over the tree
                tasks.put(pending.pop(rng.randrange(len(pending)) if shuffle else -1))
                outstanding += 1
            if stop and not outstanding:
                break
            try:
                msg = results.get(timeout=2.0)
            except queue.Empty:
                if not any(p.is_alive() for p in procs):
                    fatal = "all workers died"
                    break
                if time_budget is not None and time.time() - t0 > time_budget:
                    totals.truncated = True
                    break
                continue
            if msg[0] == "fatal":
                fatal = msg[1]
                break
            _, t, rest = msg
            outstanding -= 1
            totals.merge(t)
            pending.extend(rest)
            if time_budget is not None and time.time() - t0 > time_budget:
                # budget exhausted: do not wait for the chunks still in flight (their paths are simply not counted)
                stop = True
                if pending or outstanding:
                    totals.truncated = True
                break
            if max_paths is not None and totals.paths >= max_paths:
                stop = True
            if stop_on_first_violation and totals.violations:
                stop = True
        if pending and not (stop_on_first_violation and totals.violations):
            totals.truncated = True
    finally:
        for p in procs:
            if p.is_alive():
                p.terminate()
        for p in procs:
            p.join(timeout=2)
    if fatal:
        raise RuntimeError("worker failure: " + fatal)
    totals.wall_s = time.time() - t0
    return totals
