"""
Environment stubs beyond the np proxy (DESIGN 2.5).  Each stub and its contract is recorded in
install.INSTALLED["stubs"] and therefore in the evidence of every run that used it.
"""
from __future__ import annotations

import networkx as nx
import numpy as np

from . import install as sinstall
from . import sym
from .arr import SymArray, has_sym, plain, concrete_or_none, wrap


class _NodeView(list):
    """iterable and callable, like networkx's NodeView"""

    def __call__(self, *a, **k):
        return self


class SymGraph:
    """Stand-in for a networkx.Graph whose adjacency is symbolic (nodes 0..n-1)."""

    def __init__(self, adj):
        self.adj_matrix = adj
        self.n = adj.shape[0]

    def number_of_nodes(self):
        return self.n

    def __len__(self):
        return self.n

    @property
    def nodes(self):
        return _NodeView(range(self.n))

    def __iter__(self):
        return iter(range(self.n))

    def __contains__(self, v):
        return isinstance(v, int) and 0 <= v < self.n

    def number_of_edges(self):
        raise sym.Unsupported("number_of_edges of a symbolic graph")

    def to_real(self):
        """fork on every edge bit, return a real nx.Graph"""
        a = concretize_matrix(self.adj_matrix)
        return nx.from_numpy_array(a)


def concretize_matrix(a, dtype=int):
    """fork on each symbolic cell (sound: just more paths) and return a numeric ndarray"""
    a = plain(a) if isinstance(a, np.ndarray) else np.asarray(a)
    if a.dtype != object:
        return np.asarray(a)
    out = np.zeros(a.shape, dtype=dtype)
    for idx in np.ndindex(*a.shape):
        v = a[idx]
        if isinstance(v, (sym.SymInt, sym.SymBool)):
            v = int(v)  # concretize_int -> fork
        elif isinstance(v, sym.SymReal):
            raise sym.Unsupported("cannot concretise a symbolic real")
        out[idx] = v
    return out


class NxProxy:
    """module-global `nx` inside instrumented modules: identity on adjacency matrices for SymGraph / symbolic
    arrays (assumption A5: networkx conversions are faithful for simple graphs with nodes 0..n-1); where a real
    nx.Graph is needed the matrix is first concretised by forking on its cells."""

    def __getattr__(self, name):
        return getattr(nx, name)

    def to_numpy_array(self, g, nodelist=None, **k):
        if isinstance(g, SymGraph):
            a = g.adj_matrix.copy()
            if nodelist is not None:
                order = [int(v) for v in nodelist]
                if sorted(order) != list(range(g.n)):
                    raise sym.Unsupported("to_numpy_array(SymGraph) with a nodelist that is not a permutation of the nodes")
                a = a[np.ix_(order, order)]  # row/column i of the result is node nodelist[i], as in networkx
            return a
        return nx.to_numpy_array(g, nodelist=nodelist, **k)

    def from_numpy_array(self, a, *args, **k):
        if isinstance(a, np.ndarray) and a.dtype == object:
            a = concretize_matrix(a)
        return nx.from_numpy_array(a, *args, **k)

    def to_networkx_graph(self, data, *a, **k):
        if isinstance(data, SymGraph):
            return data
        if isinstance(data, np.ndarray) and data.dtype == object:
            if has_sym(data):
                return SymGraph(wrap(data))  # stays symbolic; SymGraph.to_real() forks when a real graph is needed
            data = concretize_matrix(data)
        return nx.to_networkx_graph(data, *a, **k)

    Graph = None  # set below (class proxy that still works with isinstance)


class _GraphProxyMeta(type):
    def __instancecheck__(cls, obj):
        return isinstance(obj, nx.Graph)

    def __subclasscheck__(cls, sub):
        return issubclass(sub, nx.Graph)

    def __call__(cls, data=None, **k):
        if isinstance(data, SymGraph):
            return data.to_real()
        if isinstance(data, np.ndarray) and data.dtype == object:
            data = concretize_matrix(data)
        return nx.Graph(data, **k)


class GraphProxy(metaclass=_GraphProxyMeta):
    """nx.Graph inside instrumented modules: isinstance/issubclass behave as for networkx.Graph; the constructor
    concretises a symbolic adjacency matrix by forking and then builds the real networkx.Graph"""


NxProxy.Graph = GraphProxy
NX_PROXY = NxProxy()
NX_MODULES = [
    "graphiq.backends.stabilizer.functions.rep_conversion",
    "graphiq.backends.stabilizer.functions.height",
    "graphiq.backends.state_rep_conversion",
    "graphiq.backends.lc_equivalence_check",
    "graphiq.backends.graph.state",
    "graphiq.state",
]


def install_nx(modules=None):
    for m in modules or NX_MODULES:
        mod = __import__(m, fromlist=["x"])
        if "nx" in mod.__dict__:
            sinstall.stub(m, "nx", NX_PROXY,
                          "networkx proxy: to_numpy_array(SymGraph) = its adjacency; from_numpy_array/Graph/"
                          "to_networkx_graph concretise symbolic matrices by forking, then call networkx (A5)")
