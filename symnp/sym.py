"""
symnp.sym -- symbolic scalar values (SymBool, SymInt, SymReal, SymComplex) over z3 terms.

Python `int` is modelled by z3 `Int` (mathematical integers), `float`/`complex` by z3 `Real` (exact
rationals; float *rounding* is not modelled -- assumption A4 of DESIGN.md).  A value known to be 0/1 carries
a Boolean `bit` so that tableau updates stay propositional; every SymInt carries (when known) its parity
`par` so that `(a + b) % 2` is an Xor, not an LIA `mod`.

`__bool__`, `__index__`, `__int__`, `__float__`, `__hash__` are the *fork points*: they ask the active
Session (symnp.engine) which sides are feasible and pick one; the explorer re-executes for the others.
"""
from __future__ import annotations

import operator
from fractions import Fraction

import numpy as np
import z3

_SESSION = None  # set by engine.Session.__enter__


def session():
    if _SESSION is None:
        raise RuntimeError("symbolic value used outside of an active symnp Session")
    return _SESSION


def _set_session(s):
    global _SESSION
    _SESSION = s


class Unsupported(BaseException):
    """An operation the engine has no model for.  The path is reported inconclusive, never as success.
    graphiq contains bare `except:` clauses that would swallow this exception, so constructing it also marks the
    active session as dead; the explorer checks the mark at the end of the path."""

    def __init__(self, *a):
        super().__init__(*a)
        if _SESSION is not None and getattr(_SESSION, "dead", None) is None:
            _SESSION.dead = "Unsupported: " + " ".join(str(x) for x in a)


class CannotLift(TypeError):
    """a value of a foreign type met a symbolic operand (ordinary TypeError semantics: operators return
    NotImplemented, everything else surfaces as an exception of the code under test)"""


# ----------------------------------------------------------------------------------------------------
# Boolean helpers working on python bools *and* z3 Bool terms (used by oracles in symbolic and concrete mode)
# ----------------------------------------------------------------------------------------------------

_T = z3.BoolVal(True)
_F = z3.BoolVal(False)


def is_sym(x):
    return isinstance(x, (SymBool, SymInt, SymReal, SymComplex))


def _zb(x):
    """python bool / SymBool / z3 Bool / 0-1 int / SymInt bit  ->  python bool or z3 BoolRef"""
    if isinstance(x, SymBool):
        return x.e
    if isinstance(x, (bool, np.bool_)):
        return bool(x)
    if isinstance(x, z3.BoolRef):
        if z3.is_true(x):
            return True
        if z3.is_false(x):
            return False
        return x
    if isinstance(x, SymInt):
        return x.nonzero_term()
    if isinstance(x, (int, np.integer)):
        return int(x) != 0
    if isinstance(x, (float, np.floating)):
        return float(x) != 0
    raise TypeError(f"not a boolean-like value: {type(x)}")


def _wrapb(e):
    if isinstance(e, bool):
        return e
    if z3.is_true(e):
        return True
    if z3.is_false(e):
        return False
    return SymBool(e)


def b_not(a):
    a = _zb(a)
    if isinstance(a, bool):
        return not a
    return _wrapb(z3.Not(a))


def b_and(*xs):
    out = []
    for x in xs:
        x = _zb(x)
        if isinstance(x, bool):
            if not x:
                return False
            continue
        out.append(x)
    if not out:
        return True
    if len(out) == 1:
        return _wrapb(out[0])
    return _wrapb(z3.And(*out))


def b_or(*xs):
    out = []
    for x in xs:
        x = _zb(x)
        if isinstance(x, bool):
            if x:
                return True
            continue
        out.append(x)
    if not out:
        return False
    if len(out) == 1:
        return _wrapb(out[0])
    return _wrapb(z3.Or(*out))


def b_xor(*xs):
    c = False
    acc = None
    for x in xs:
        x = _zb(x)
        if isinstance(x, bool):
            c ^= x
        elif acc is None:
            acc = x
        elif acc.eq(x):
            acc = None
        else:
            acc = z3.Xor(acc, x)
    if acc is None:
        return c
    return _wrapb(z3.Not(acc) if c else acc)


def b_implies(a, b):
    return b_or(b_not(a), b)


def b_iff(a, b):
    return b_not(b_xor(a, b))


def b_ite(c, a, b):
    """if-then-else over bools, ints, SymInts (returns value of matching kind)"""
    c = _zb(c)
    if isinstance(c, bool):
        return a if c else b
    if isinstance(a, (bool, np.bool_, SymBool)) and isinstance(b, (bool, np.bool_, SymBool)):
        za, zb_ = _zb(a), _zb(b)
        za = z3.BoolVal(za) if isinstance(za, bool) else za
        zb_ = z3.BoolVal(zb_) if isinstance(zb_, bool) else zb_
        return _wrapb(z3.If(c, za, zb_))
    if isinstance(a, (SymReal, float, Fraction)) or isinstance(b, (SymReal, float, Fraction)):
        return SymReal(z3.If(c, _zr(a), _zr(b)))
    return SymInt.ite(c, a, b)


def i_eq(a, b):
    """equality of two int-like values -> python bool or SymBool"""
    r = a == b
    if isinstance(r, (bool, np.bool_)):
        return bool(r)
    return r


def conj_all(items):
    return b_and(*list(items))


# ----------------------------------------------------------------------------------------------------
class SymBool:
    __slots__ = ("e",)
    __array_priority__ = 2000

    def __init__(self, e):
        self.e = e

    def __bool__(self):
        return session().branch(self.e)

    def __and__(self, o):
        return b_and(self, o)

    __rand__ = __and__

    def __or__(self, o):
        return b_or(self, o)

    __ror__ = __or__

    def __xor__(self, o):
        return b_xor(self, o)

    __rxor__ = __xor__

    def __invert__(self):
        return b_not(self)

    def __eq__(self, o):
        if isinstance(o, (SymBool, bool, np.bool_)):
            return b_iff(self, o)
        return self.as_int() == o

    def __ne__(self, o):
        return b_not(self == o)

    def __hash__(self):
        return hash(bool(self))

    def as_int(self):
        return SymInt.from_bit(self.e)

    # arithmetic on bools behaves like ints (True == 1)
    def __add__(self, o):
        return self.as_int() + o

    __radd__ = __add__

    def __mul__(self, o):
        return self.as_int() * o

    __rmul__ = __mul__

    def __sub__(self, o):
        return self.as_int() - o

    def __rsub__(self, o):
        return o - self.as_int()

    def __int__(self):
        return 1 if bool(self) else 0

    __index__ = __int__

    def __repr__(self):
        return f"SymBool({self.e})"


# ----------------------------------------------------------------------------------------------------
def _to_pyint(x):
    if isinstance(x, (bool, np.bool_)):
        return int(x)
    if isinstance(x, (int, np.integer)):
        return int(x)
    if isinstance(x, (float, np.floating)) and float(x).is_integer():
        return int(x)
    return None


class SymInt:
    """A Python-int valued symbolic term.  Exactly one of (`_e`, `bit`) is primary; `_e` is built lazily."""

    __slots__ = ("_e", "bit", "par")
    __array_priority__ = 2000

    def __init__(self, e=None, bit=None, par=None):
        self._e = e
        self.bit = bit
        self.par = bit if bit is not None else par

    # -- constructors ---------------------------------------------------------------------------------
    @staticmethod
    def from_bit(b):
        """b: python bool or z3 Bool -> python int or SymInt"""
        if isinstance(b, SymBool):
            b = b.e
        if isinstance(b, (bool, np.bool_)):
            return int(b)
        if z3.is_true(b):
            return 1
        if z3.is_false(b):
            return 0
        return SymInt(bit=b)

    @staticmethod
    def from_term(e, par=None):
        if z3.is_int_value(e):
            return e.as_long()
        return SymInt(e=e, par=par)

    @staticmethod
    def ite(c, a, b):
        """c: z3 Bool; a, b: int-like"""
        if isinstance(a, SymBool):
            a = a.as_int()
        if isinstance(b, SymBool):
            b = b.as_int()
        pa, pb = _to_pyint(a), _to_pyint(b)
        if pa is not None and pb is not None:
            if pa == pb:
                return pa
            if pa == 1 and pb == 0:
                return SymInt.from_bit(c)
            if pa == 0 and pb == 1:
                return SymInt.from_bit(z3.Not(c))
        abit = _bit_of(a)
        bbit = _bit_of(b)
        if abit is not None and bbit is not None:
            return SymInt.from_bit(z3.If(c, _zbool(abit), _zbool(bbit)))
        apar, bpar = _par_of(a), _par_of(b)
        par = None
        if apar is not None and bpar is not None:
            par = z3.If(c, _zbool(apar), _zbool(bpar))
        return SymInt.from_term(z3.If(c, _zi(a), _zi(b)), par=par)

    # -- term access ----------------------------------------------------------------------------------
    @property
    def e(self):
        if self._e is None:
            self._e = z3.If(self.bit, z3.IntVal(1), z3.IntVal(0))
        return self._e

    def nonzero_term(self):
        if self.bit is not None:
            return self.bit
        return self.e != 0

    def need_bit(self):
        """Return a z3 Bool b with value == ite(b,1,0); proved by the solver if not tagged (DESIGN 2.1)."""
        if self.bit is not None:
            return self.bit
        s = session()
        if not s.entails(z3.And(self.e >= 0, self.e <= 1)):
            raise Unsupported("bitwise operation on a symbolic integer not provably in {0,1}")
        self.bit = self.e == 1
        self.par = self.bit
        return self.bit

    # -- fork points ----------------------------------------------------------------------------------
    def __bool__(self):
        return session().branch(self.nonzero_term())

    def __index__(self):
        return session().concretize_int(self)

    __int__ = __index__

    def __float__(self):
        return float(session().concretize_int(self))

    def __hash__(self):
        return hash(session().concretize_int(self))

    # -- arithmetic -----------------------------------------------------------------------------------
    def _bin(self, o, op, parop):
        if isinstance(o, SymBool):
            o = o.as_int()
        if isinstance(o, (SymReal, SymComplex)):
            return NotImplemented
        if isinstance(o, (float, np.floating)) and not float(o).is_integer():
            return NotImplemented
        if isinstance(o, (complex, np.complexfloating)):
            return NotImplemented
        po = _to_pyint(o)
        if po is None and not isinstance(o, SymInt):
            return NotImplemented
        par = None
        sp, op_ = self.par, _par_of(o)
        if sp is not None and op_ is not None:
            par = parop(sp, op_)
        return po, par

    def __add__(self, o):
        r = self._bin(o, None, lambda a, b: _zx(a, b))
        if r is NotImplemented:
            return _real_fallback(self, o, operator.add)
        po, par = r
        if po == 0:
            return self
        return SymInt.from_term(self.e + _zi(o), par=par)

    __radd__ = __add__

    def __sub__(self, o):
        r = self._bin(o, None, lambda a, b: _zx(a, b))
        if r is NotImplemented:
            return _real_fallback(self, o, operator.sub)
        po, par = r
        if po == 0:
            return self
        if isinstance(o, SymInt) and o is self:
            return 0
        return SymInt.from_term(self.e - _zi(o), par=par)

    def __rsub__(self, o):
        r = self._bin(o, None, lambda a, b: _zx(a, b))
        if r is NotImplemented:
            return _real_fallback(o, self, operator.sub)
        po, par = r
        return SymInt.from_term(_zi(o) - self.e, par=par)

    def __neg__(self):
        return SymInt.from_term(-self.e, par=self.par)

    def __pos__(self):
        return self

    def __abs__(self):
        if self.bit is not None:
            return self
        return SymInt.from_term(z3.If(self.e >= 0, self.e, -self.e), par=self.par)

    def __mul__(self, o):
        if isinstance(o, np.ndarray):
            return NotImplemented
        r = self._bin(o, None, lambda a, b: _za(a, b))
        if r is NotImplemented:
            return _real_fallback(self, o, operator.mul)
        po, par = r
        if po is not None:
            if po == 0:
                return 0
            if po == 1:
                return self
        ob = _bit_of(o)
        if self.bit is not None and ob is not None:
            if isinstance(ob, bool):
                return self if ob else 0
            return SymInt.from_bit(_za(self.bit, ob))
        if self.bit is not None:
            # bit * general  ->  ite(bit, o, 0)
            return SymInt.ite(self.bit, o, 0)
        if ob is not None and not isinstance(ob, bool):
            return SymInt.ite(ob, self, 0)
        return SymInt.from_term(self.e * _zi(o), par=par)

    __rmul__ = __mul__

    def __mod__(self, o):
        po = _to_pyint(o)
        if po is None:
            raise Unsupported("modulo by a symbolic value")
        if po == 2 and self.par is not None:
            return SymInt.from_bit(self.par)
        if po >= 2 and self.bit is not None:
            return self
        if po <= 0:
            raise Unsupported("modulo by a non-positive constant")
        par = self.par if po % 2 == 0 else None
        return SymInt.from_term(self.e % po, par=par)

    def __floordiv__(self, o):
        po = _to_pyint(o)
        if po is None or po <= 0:
            raise Unsupported("floor division by a symbolic or non-positive value")
        if po == 1:
            return self
        if self.bit is not None:
            return 0
        return SymInt.from_term(self.e / po)  # z3 Int `/` is floor division for positive divisors

    def __truediv__(self, o):
        po = _to_pyint(o)
        if po is not None and po != 0:
            return SymRatio(self, po)
        return _real_fallback(self, o, operator.truediv)

    def __rtruediv__(self, o):
        return _real_fallback(o, self, operator.truediv)

    def __pow__(self, o):
        po = _to_pyint(o)
        if po is None or po < 0:
            raise Unsupported("power with symbolic / negative exponent")
        if po == 0:
            return 1
        if self.bit is not None:
            return self
        r = self
        for _ in range(po - 1):
            r = r * self
        return r

    def __rpow__(self, o):
        # c ** bit  = ite(bit, c, 1)
        if self.bit is not None:
            if isinstance(o, (SymReal, float, Fraction, np.floating)) and _to_pyint(o) is None:
                return SymReal(z3.If(self.bit, _zr(o), z3.RealVal(1)))
            return SymInt.ite(self.bit, o, 1)
        raise Unsupported("constant ** symbolic integer")

    # -- bitwise (only meaningful on 0/1 values) ------------------------------------------------------
    def _bitop(self, o, f):
        if isinstance(o, np.ndarray):
            return NotImplemented
        if isinstance(o, SymBool):
            ob = o.e
        elif isinstance(o, SymInt):
            ob = o.need_bit()
        else:
            po = _to_pyint(o)
            if po not in (0, 1):
                raise Unsupported(f"bitwise operation with non-bit constant {o!r}")
            ob = bool(po)
        return SymInt.from_bit(_zb(f(self.need_bit(), ob)))

    def __xor__(self, o):
        return self._bitop(o, b_xor)

    __rxor__ = __xor__

    def __and__(self, o):
        return self._bitop(o, b_and)

    __rand__ = __and__

    def __or__(self, o):
        return self._bitop(o, b_or)

    __ror__ = __or__

    def __invert__(self):
        return SymInt.from_term(-self.e - 1)

    # -- comparisons ----------------------------------------------------------------------------------
    def _cmp(self, o, op):
        if isinstance(o, SymBool):
            o = o.as_int()
        if isinstance(o, (SymReal,)):
            return NotImplemented
        if isinstance(o, SymRatio):
            return NotImplemented
        if isinstance(o, (float, np.floating)) and not float(o).is_integer():
            return _wrapb(op(z3.ToReal(self.e), _zr(o)))
        if _to_pyint(o) is None and not isinstance(o, SymInt):
            return NotImplemented
        return _wrapb(z3.simplify(op(self.e, _zi(o)))) if self.bit is None else _wrapb(op(self.e, _zi(o)))

    def __eq__(self, o):
        if isinstance(o, (str, type(None), tuple, list)):
            return False
        if isinstance(o, np.ndarray):
            return NotImplemented
        po = _to_pyint(o)
        if self.bit is not None:
            if po is not None:
                if po == 1:
                    return _wrapb(self.bit)
                if po == 0:
                    return _wrapb(z3.Not(self.bit))
                return False
            ob = _bit_of(o)
            if ob is not None:
                return b_iff(self.bit, ob)
        r = self._cmp(o, operator.eq)
        if r is NotImplemented:
            if isinstance(o, (float, np.floating)):
                return False
            return NotImplemented
        return r

    def __ne__(self, o):
        r = self.__eq__(o)
        if r is NotImplemented:
            return r
        return b_not(r)

    def __lt__(self, o):
        return self._cmp(o, operator.lt)

    def __le__(self, o):
        return self._cmp(o, operator.le)

    def __gt__(self, o):
        return self._cmp(o, operator.gt)

    def __ge__(self, o):
        return self._cmp(o, operator.ge)

    # numpy-ish attributes sometimes poked at
    @property
    def real(self):
        return self

    @property
    def imag(self):
        return 0

    def conjugate(self):
        return self

    def astype(self, dtype, *a, **k):  # numpy scalars have astype; int/float casts keep the symbolic integer
        return self

    def item(self):
        return self

    def __repr__(self):
        if self.bit is not None:
            return f"SymBit({self.bit})"
        return f"SymInt({self._e})"


class SymRatio:
    """symbolic int / concrete int, only consumed by `int(...)` (symbolic trunc) or turned into a SymReal."""

    __slots__ = ("num", "den")
    __array_priority__ = 2000

    def __init__(self, num, den):
        self.num, self.den = num, den

    def trunc(self):
        n, d = self.num, self.den
        if d < 0:
            n, d = -n, -d
        if not isinstance(n, SymInt):
            return int(n / d)
        if n.bit is not None:
            return n if d == 1 else 0
        s = session()
        if s.entails(n.e >= 0):
            return SymInt.from_term(n.e / d)
        return SymInt.from_term(z3.If(n.e >= 0, n.e / d, -((-n.e) / d)))

    def as_real(self):
        return SymReal(z3.ToReal(_zi(self.num)) / z3.RealVal(self.den))

    def __int__(self):
        return int(self.trunc())

    def __float__(self):
        return float(self.as_real())

    def __getattr__(self, name):
        if name.startswith("__") and name.endswith("__") and name not in ("__add__", "__radd__", "__mul__",
                                                                          "__rmul__", "__sub__", "__rsub__",
                                                                          "__lt__", "__gt__", "__le__", "__ge__"):
            raise AttributeError(name)
        return getattr(self.as_real(), name)

    def __add__(self, o):
        return self.as_real() + o

    __radd__ = __add__

    def __mul__(self, o):
        return self.as_real() * o

    __rmul__ = __mul__


class SymIntType(int):
    """Drop-in for the builtin `int` inside instrumented graphiq modules (DESIGN 2.5): `int(x)` of a symbolic
    value is its symbolic truncation; concrete arguments behave as `int`; `np.dtype(SymIntType)` is object so
    `.astype(int)` keeps working on SymArray (where astype is the identity on cells anyway)."""

    def __new__(cls, x=0, *a):
        if isinstance(x, SymRatio):
            return x.trunc()
        if isinstance(x, SymInt):
            return x
        if isinstance(x, SymBool):
            return x.as_int()
        if isinstance(x, SymReal):
            return x.trunc()
        return int(x, *a)


# ----------------------------------------------------------------------------------------------------
def _zbool(b):
    return z3.BoolVal(b) if isinstance(b, bool) else b


def _zx(a, b):
    r = b_xor(a, b)
    return _zb(r)


def _za(a, b):
    r = b_and(a, b)
    return _zb(r)


def _bit_of(x):
    """bit (python bool or z3 Bool) of an int-like if known to be 0/1, else None"""
    if isinstance(x, SymInt):
        return x.bit
    if isinstance(x, SymBool):
        return x.e
    p = _to_pyint(x)
    if p in (0, 1):
        return bool(p)
    return None


def _par_of(x):
    if isinstance(x, SymInt):
        return x.par
    if isinstance(x, SymBool):
        return x.e
    p = _to_pyint(x)
    if p is not None:
        return bool(p % 2)
    return None


def _zi(x):
    """int-like -> z3 Int term"""
    if isinstance(x, SymInt):
        return x.e
    if isinstance(x, SymBool):
        return z3.If(x.e, z3.IntVal(1), z3.IntVal(0))
    p = _to_pyint(x)
    if p is None:
        raise CannotLift(f"cannot use {type(x)} as symbolic integer")
    return z3.IntVal(p)


def _zr(x):
    """real-like -> z3 Real term (floats by their exact rational value)"""
    if isinstance(x, SymReal):
        return x.e
    if isinstance(x, SymRatio):
        return x.as_real().e
    if isinstance(x, SymInt):
        return z3.ToReal(x.e)
    if isinstance(x, SymBool):
        return z3.If(x.e, z3.RealVal(1), z3.RealVal(0))
    if isinstance(x, (bool, np.bool_)):
        return z3.RealVal(int(x))
    if isinstance(x, (int, np.integer)):
        return z3.RealVal(int(x))
    if isinstance(x, Fraction):
        return z3.RealVal(x.numerator) / z3.RealVal(x.denominator) if x.denominator != 1 else z3.RealVal(x.numerator)
    if isinstance(x, (float, np.floating)):
        f = Fraction(float(x))
        return z3.Q(f.numerator, f.denominator)
    if isinstance(x, (complex, np.complexfloating)):
        if x.imag == 0:
            return _zr(x.real)
    raise CannotLift(f"cannot use {type(x)} as symbolic real")


def _real_fallback(a, b, op):
    if isinstance(a, (complex, np.complexfloating, SymComplex)) or isinstance(b, (complex, np.complexfloating, SymComplex)):
        return op(SymComplex.lift(a), SymComplex.lift(b))
    if isinstance(a, np.ndarray) or isinstance(b, np.ndarray):
        return NotImplemented
    return op(SymReal.lift(a), SymReal.lift(b))


# ----------------------------------------------------------------------------------------------------
class SymReal(float):
    """Real-valued symbolic term.  Subclasses float (payload nan) because graphiq asserts isinstance(p, float)
    on mixture weights; a leak into C-level float code poisons the result with nan (-> inconclusive)."""

    __array_priority__ = 2000

    def __new__(cls, e):
        o = float.__new__(cls, float("nan"))
        o.e = e
        return o

    @staticmethod
    def lift(x):
        if isinstance(x, SymReal):
            return x
        return SymReal(_zr(x))

    @staticmethod
    def wrap(e):
        e = z3.simplify(e)
        if z3.is_rational_value(e):
            fr = Fraction(e.numerator_as_long(), e.denominator_as_long())
            return float(fr) if float(fr) == fr else SymReal(e)
        return SymReal(e)

    def _o(self, o):
        if isinstance(o, np.ndarray):
            return NotImplemented
        if isinstance(o, (SymComplex, complex, np.complexfloating)):
            return NotImplemented
        try:
            return _zr(o)
        except CannotLift:
            return NotImplemented

    def __add__(self, o):
        z = self._o(o)
        if z is NotImplemented:
            return SymComplex.lift(self) + o if isinstance(o, (SymComplex, complex, np.complexfloating)) else NotImplemented
        return SymReal(self.e + z)

    __radd__ = __add__

    def __sub__(self, o):
        z = self._o(o)
        if z is NotImplemented:
            return SymComplex.lift(self) - o if isinstance(o, (SymComplex, complex, np.complexfloating)) else NotImplemented
        return SymReal(self.e - z)

    def __rsub__(self, o):
        z = self._o(o)
        if z is NotImplemented:
            return o - SymComplex.lift(self) if isinstance(o, (SymComplex, complex, np.complexfloating)) else NotImplemented
        return SymReal(z - self.e)

    def __mul__(self, o):
        z = self._o(o)
        if z is NotImplemented:
            return SymComplex.lift(self) * o if isinstance(o, (SymComplex, complex, np.complexfloating)) else NotImplemented
        if z3.is_rational_value(z) and z.numerator_as_long() == 0:
            return 0.0
        return SymReal(self.e * z)

    __rmul__ = __mul__

    def __truediv__(self, o):
        z = self._o(o)
        if z is NotImplemented:
            return SymComplex.lift(self) / o if isinstance(o, (SymComplex, complex, np.complexfloating)) else NotImplemented
        session().note_division(z)
        return SymReal(self.e / z)

    def __rtruediv__(self, o):
        z = self._o(o)
        if z is NotImplemented:
            return o / SymComplex.lift(self) if isinstance(o, (SymComplex, complex, np.complexfloating)) else NotImplemented
        session().note_division(self.e)
        return SymReal(z / self.e)

    def __neg__(self):
        return SymReal(-self.e)

    def __pos__(self):
        return self

    def __abs__(self):
        return SymReal(z3.If(self.e >= 0, self.e, -self.e))

    def __pow__(self, o):
        po = _to_pyint(o)
        if po is not None and po >= 0:
            r = SymReal(z3.RealVal(1))
            for _ in range(po):
                r = r * self
            return r
        if isinstance(o, (float, np.floating)) and float(o) == 0.5:
            return self.sqrt()
        raise Unsupported("real ** non-integer")

    def sqrt(self):
        return session().fresh_sqrt(self)

    def trunc(self):
        i = z3.ToInt(self.e)
        return SymInt.from_term(z3.If(self.e >= 0, i, -z3.ToInt(-self.e)))

    def _cmp(self, o, op):
        z = self._o(o)
        if z is NotImplemented:
            return NotImplemented
        return _wrapb(z3.simplify(op(self.e, z)))

    def __eq__(self, o):
        if isinstance(o, (str, type(None))):
            return False
        return self._cmp(o, operator.eq)

    def __ne__(self, o):
        r = self.__eq__(o)
        return r if r is NotImplemented else b_not(r)

    def __lt__(self, o):
        return self._cmp(o, operator.lt)

    def __le__(self, o):
        return self._cmp(o, operator.le)

    def __gt__(self, o):
        return self._cmp(o, operator.gt)

    def __ge__(self, o):
        return self._cmp(o, operator.ge)

    def __bool__(self):
        return session().branch(self.e != 0)

    def __hash__(self):
        raise Unsupported("hash of a symbolic real")

    def __float__(self):
        raise Unsupported("symbolic real leaked into a C-level float conversion")

    def __int__(self):
        raise Unsupported("int() of a symbolic real outside an instrumented module")

    @property
    def real(self):
        return self

    @property
    def imag(self):
        return 0.0

    def conjugate(self):
        return self

    def __repr__(self):
        return f"SymReal({self.e})"


class SymComplex:
    __slots__ = ("re", "im")
    __array_priority__ = 2000

    def __init__(self, re, im):
        self.re, self.im = re, im  # z3 Real terms

    @staticmethod
    def lift(x):
        if isinstance(x, SymComplex):
            return x
        if isinstance(x, (complex, np.complexfloating)):
            return SymComplex(_zr(x.real), _zr(x.imag))
        return SymComplex(_zr(x), z3.RealVal(0))

    @staticmethod
    def _lift_or_ni(o):
        if isinstance(o, np.ndarray):
            return NotImplemented
        try:
            return SymComplex.lift(o)
        except CannotLift:
            return NotImplemented

    @staticmethod
    def wrap(re, im):
        re, im = z3.simplify(re), z3.simplify(im)
        return SymComplex(re, im)

    def __add__(self, o):
        o = self._lift_or_ni(o)
        if o is NotImplemented:
            return o
        return SymComplex(self.re + o.re, self.im + o.im)

    __radd__ = __add__

    def __sub__(self, o):
        o = self._lift_or_ni(o)
        if o is NotImplemented:
            return o
        return SymComplex(self.re - o.re, self.im - o.im)

    def __rsub__(self, o):
        o = self._lift_or_ni(o)
        if o is NotImplemented:
            return o
        return SymComplex(o.re - self.re, o.im - self.im)

    def __mul__(self, o):
        o = self._lift_or_ni(o)
        if o is NotImplemented:
            return o
        return SymComplex.wrap(self.re * o.re - self.im * o.im, self.re * o.im + self.im * o.re)

    __rmul__ = __mul__

    def __truediv__(self, o):
        o = self._lift_or_ni(o)
        if o is NotImplemented:
            return o
        d = z3.simplify(o.re * o.re + o.im * o.im)
        session().note_division(d)
        return SymComplex.wrap((self.re * o.re + self.im * o.im) / d, (self.im * o.re - self.re * o.im) / d)

    def __rtruediv__(self, o):
        return SymComplex.lift(o) / self

    def __neg__(self):
        return SymComplex(-self.re, -self.im)

    def __pos__(self):
        return self

    def conjugate(self):
        return SymComplex(self.re, -self.im)

    conj = conjugate

    @property
    def real(self):
        return SymReal.wrap(self.re)

    @property
    def imag(self):
        return SymReal.wrap(self.im)

    def __abs__(self):
        return SymReal(self.re * self.re + self.im * self.im).sqrt()

    def __eq__(self, o):
        o = self._lift_or_ni(o)
        if o is NotImplemented:
            return o
        return _wrapb(z3.simplify(z3.And(self.re == o.re, self.im == o.im)))

    def __ne__(self, o):
        r = self.__eq__(o)
        return r if r is NotImplemented else b_not(r)

    def __bool__(self):
        return session().branch(z3.Or(self.re != 0, self.im != 0))

    def __hash__(self):
        raise Unsupported("hash of a symbolic complex")

    def __complex__(self):
        raise Unsupported("symbolic complex leaked into a C-level conversion")

    def __float__(self):
        raise Unsupported("symbolic complex leaked into a C-level float conversion")

    def __repr__(self):
        return f"SymComplex({self.re}, {self.im})"
