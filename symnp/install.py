"""
symnp.install -- in-process rebinding of module globals of graphiq modules (no source change in /repo):
  * `np`  -> arr.NP_PROXY      (zeros/eye/ones/array produce SymArray, np.random draws are symbolic outcomes)
  * `int` -> sym.SymIntType    (symbolic truncation), only where listed
  * leaf functions -> summaries explored once per run from their *current* source (DESIGN 2.4)
Everything is recorded in INSTALLED so that evidence files can list the stubs that are part of the claim.
"""
from __future__ import annotations

import importlib
import inspect

import z3

from . import sym
from .arr import NP_PROXY
from .sym import SymInt, SymBool, SymIntType

STAB = "graphiq.backends.stabilizer."
NP_MODULES = [
    STAB + "functions.linalg",
    STAB + "functions.transformation",
    STAB + "functions.clifford",
    STAB + "functions.stabilizer",
    STAB + "functions.metric",
    STAB + "functions.height",
    STAB + "functions.rep_conversion",
    STAB + "functions.utils",
    STAB + "functions.local_cliff_equi_check",
    STAB + "clifford_tableau",
    STAB + "tableau",
    STAB + "state",
    STAB + "compiler",
    "graphiq.backends.compiler_base",
    "graphiq.backends.lc_equivalence_check",
    "graphiq.backends.state_rep_conversion",
    "graphiq.solvers.time_reversed_solver",
    "graphiq.state",
    "graphiq.metrics",
]
DM_MODULES = [
    "graphiq.backends.density_matrix.functions",
    "graphiq.backends.density_matrix.state",
    "graphiq.backends.density_matrix.compiler",
    "graphiq.noise.noise_models",
]
INT_MODULES = [STAB + "functions.linalg"]

INSTALLED = {"np": [], "int": [], "summaries": {}, "stubs": []}
_SAVED = []


def _setglobal(modname, name, value):
    mod = importlib.import_module(modname)
    missing = object()
    old = mod.__dict__.get(name, missing)
    _SAVED.append((mod, name, old, missing))
    mod.__dict__[name] = value
    return old


def install(np_modules=None, int_modules=None, dm=False, summaries=True):
    if INSTALLED["np"]:
        return
    mods = list(np_modules if np_modules is not None else NP_MODULES)
    if dm:
        mods += DM_MODULES
    for m in mods:
        _setglobal(m, "np", NP_PROXY)
        INSTALLED["np"].append(m)
    for m in int_modules if int_modules is not None else INT_MODULES:
        _setglobal(m, "int", SymIntType)
        INSTALLED["int"].append(m)
    if STAB + "functions.clifford" in mods:
        import scipy.linalg
        from .arr import wrap

        stub(STAB + "functions.clifford", "block_diag", lambda *a: wrap(scipy.linalg.block_diag(*a)),
             "scipy.linalg.block_diag, result re-typed as SymArray (scipy is not dispatched through __array_function__)")
    if summaries:
        install_g_function_summary()


def install_dm_state():
    """density-matrix leg: only the *state* module is instrumented (its `np` and `numpy` globals); gate matrices,
    projectors and Kraus operators are built by the un-instrumented numeric functions module"""
    from .arr import NP_PROXY

    m = "graphiq.backends.density_matrix.state"
    _setglobal(m, "np", NP_PROXY)
    _setglobal(m, "numpy", NP_PROXY)
    INSTALLED["np"].append(m)


def uninstall():
    while _SAVED:
        mod, name, old, missing = _SAVED.pop()
        if old is missing:
            mod.__dict__.pop(name, None)
        else:
            mod.__dict__[name] = old
    INSTALLED["np"].clear()
    INSTALLED["int"].clear()
    INSTALLED["summaries"].clear()
    INSTALLED["stubs"].clear()


def stub(modname, name, value, contract):
    old = _setglobal(modname, name, value)
    INSTALLED["stubs"].append({"where": f"{modname}.{name}", "contract": contract})
    return old


# ------------------------------------------------------------------------------------------------------
def summarize_bits_function(fn, nargs, tag):
    """Explore `fn` once on fresh symbolic bit arguments; return (wrapper, n_paths).  The wrapper substitutes
    actual (bit) arguments into the resulting if-then-else term; concrete calls go to the original."""
    from .engine import Session, _dfs, Totals

    formals = [z3.Bool(f"{tag}!a{i}") for i in range(nargs)]
    cases = []

    class H:
        name = "summary:" + tag

        def declare(self, S):
            return None

        def body(self, S, spec):
            args = [SymInt.from_bit(f) for f in formals]
            r = fn(*args)
            conds = [(p[1] if p[2] else z3.Not(p[1])) for p in S.pc if p[0] == "branch"]
            cases.append((conds, r))

    S = Session()
    S.declared = True
    tot = Totals()
    rest = _dfs(S, H(), None, [[]], tot)
    if rest or tot.inconclusive or not cases:
        raise RuntimeError(f"could not summarise {tag}: {tot.inconclusive_reasons}")
    term = None
    par = None
    have_par = True
    for conds, r in reversed(cases):
        c = z3.And(*conds) if conds else z3.BoolVal(True)
        ri = sym._zi(r)
        rp = sym._par_of(r)
        if rp is None:
            have_par = False
        if term is None:
            term = ri
            par = sym._zbool(rp) if rp is not None else None
        else:
            term = z3.If(c, ri, term)
            if have_par and par is not None:
                par = z3.If(c, sym._zbool(rp), par)
    if not have_par:
        par = None
    n_paths = len(cases)

    def wrapper(*args):
        if not any(isinstance(a, (SymInt, SymBool)) for a in args):
            return fn(*args)
        subs = []
        for f, a in zip(formals, args):
            b = sym._bit_of(a)
            if b is None:
                b = a.need_bit()
            subs.append((f, sym._zbool(b)))
        t = z3.substitute(term, *subs)
        p = z3.substitute(par, *subs) if par is not None else None
        t = z3.simplify(t)
        return SymInt.from_term(t, par=p)

    wrapper.__wrapped__ = fn
    wrapper.summary_term = term
    return wrapper, n_paths


def install_g_function_summary():
    import graphiq.backends.stabilizer.functions.linalg as la

    fn = la.__dict__["g_function"]
    if hasattr(fn, "__wrapped__"):
        return
    w, n = summarize_bits_function(fn, 4, "g")
    _setglobal(la.__name__, "g_function", w)
    INSTALLED["summaries"]["linalg.g_function"] = {"paths": n, "term": str(z3.simplify(w.summary_term))[:400]}
