"""CrossHair contracts (second, independent symbolic engine) for two pure-python leaf functions of graphiq.
Run:  crosshair check --report_all --per_condition_timeout 40 xh/g_function_contract.py
"""
from graphiq.backends.stabilizer.functions.linalg import g_function
from graphiq.backends.compiler_base import CompilerBase

# exponent k with  sigma(x1,z1) * sigma(x2,z2) = i^k sigma(x1^x2, z1^z2), written out from the Pauli multiplication
# table XY = iZ, YZ = iX, ZX = iY (and the reversed products = -i ...), identity and equal factors give 0
_TABLE = {
    (0, 0): {(0, 0): 0, (1, 0): 0, (1, 1): 0, (0, 1): 0},
    (1, 0): {(0, 0): 0, (1, 0): 0, (1, 1): 1, (0, 1): -1},   # X*Y = iZ, X*Z = -iY
    (1, 1): {(0, 0): 0, (1, 0): -1, (1, 1): 0, (0, 1): 1},   # Y*X = -iZ, Y*Z = iX
    (0, 1): {(0, 0): 0, (1, 0): 1, (1, 1): -1, (0, 1): 0},   # Z*X = iY, Z*Y = -iX
}


def _g_function_is_the_pauli_product_phase(x1: int, z1: int, x2: int, z2: int) -> int:
    """
    pre: x1 in (0, 1) and z1 in (0, 1) and x2 in (0, 1) and z2 in (0, 1)
    post: _ == _TABLE[(x1, z1)][(x2, z2)]
    """
    return g_function(x1, z1, x2, z2)


def _reg_to_index_photons_first(n_photon: int, reg: int) -> int:
    """
    pre: 0 <= n_photon <= 1000 and 0 <= reg <= 1000
    post: _ == reg + n_photon
    """
    return CompilerBase.reg_to_index_func(n_photon)(reg, "e")


def _reg_to_index_photon_identity(n_photon: int, reg: int) -> int:
    """
    pre: 0 <= n_photon <= 1000 and 0 <= reg < n_photon
    post: _ == reg and _ < CompilerBase.reg_to_index_func(n_photon)(0, "e")
    """
    return CompilerBase.reg_to_index_func(n_photon)(reg, "p")
