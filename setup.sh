#!/bin/bash
# Build the overlay venv: /venv's interpreter + its site-packages + /repo on the path, plus z3 and crosshair
# from the offline wheelhouse.  Nothing is fetched from a network.
set -e
HERE="$(cd "$(dirname "${BASH_SOURCE[0]}")" && pwd)"
cd "$HERE"
export PIP_NO_INDEX=1
if [ ! -x .venv/bin/python ]; then
  /venv/bin/python -m venv .venv
fi
SP=$(.venv/bin/python -c "import sysconfig; print(sysconfig.get_paths()['purelib'])")
printf "import site; site.addsitedir('/venv/lib/python3.12/site-packages')\n/repo\n" > "$SP/verif_overlay.pth"
.venv/bin/python -c "import z3" 2>/dev/null || .venv/bin/pip install -q --no-index --find-links /opt/veriftools/wheels z3-solver
.venv/bin/python -c "import crosshair" 2>/dev/null || .venv/bin/pip install -q --no-index --find-links /opt/veriftools/wheels crosshair-tool
PYTHONWARNINGS=ignore .venv/bin/python -c "import z3, numpy, graphiq; print('setup ok: z3', z3.get_version_string(), 'numpy', numpy.__version__)"
