"""
C02 -- the time-reversed solver returns a circuit that generates the target exactly.
"""
from __future__ import annotations

import numpy as np

from oracle import pauli as O
from oracle import chp
from symnp.sym import b_and, b_or, b_not, b_implies
from vf.common import Harness, cells, declare_graph
from props.c03 import cut_count

EXPLANATION = (
    "Bounded symbolic execution of the WHOLE real TimeReversedSolver.__init__ + solve() (rref, height function, photon "
    "absorption, time-reversed measurement, inverse_circuit, CircuitDAG construction, simplify_local_clifford, "
    "StabilizerCompiler.compile with symbolic measurement outcomes, partial_trace, Infidelity.evaluate) on a target "
    "whose adjacency matrix is symbolic (every labelled simple graph on n vertices, hence every vertex order). On each "
    "path the returned circuit is a concrete object; an independent reference stabilizer simulator (oracle/chp.py) then "
    "executes the circuit's operations -- order taken from the harness' own topological sort of circuit.dag, wrappers "
    "expanded by the 'last listed acts first' convention, not by sequence()/unwrap() -- from |0..0> with FRESH symbolic "
    "outcomes, and z3 proves for all graphs consistent with the path and all outcome vectors: every X_i Z_N(i) (+ sign) "
    "stabilizes the photons, every emitter ends in +Z, circuit.validate() passed, reported score == 0, n_emitters equals "
    "the maximum cut entropy (C03) and every photon is the target of exactly one emitter->photon CNOT and is afterwards "
    "touched only by one-qubit gates or as target of measurement-controlled corrections (C04's emission constraints on "
    "solver output, by-product).")
ASSUMPTIONS = ["A1 z3 sound", "A2 numpy object-array semantics", "np.random.randint replaced by symbolic outcomes during compile()",
               "density-matrix backend: by composition with C01 (each op of the returned circuit is in C01's op set); not re-simulated here",
               "A5 networkx conversions faithful (graph-typed target only)"]
BOUNDS = {"quick": {"graphs": "all labelled simple graphs on n<=3 vertices with symbolic compile outcomes, n=4 with forced outcome 1 in compile (reference execution: all outcomes); budgeted partial looks at n=5, n=6; graph-typed target n<=3"},
          "thorough": {"graphs": "n<=5 with symbolic compile outcomes, all 32768 labelled graphs on 6 vertices with forced outcome 1 in compile; graph-typed n<=4"}}
OUTSIDE = "density-matrix-typed targets (density_to_graph is eigen-decomposition based); n>=7; noise maps"


def graph_rows(adj, n, n_total):
    rows = []
    for i in range(n):
        x = [1 if j == i else 0 for j in range(n_total)]
        z = [adj[i][j] if j < n else 0 for j in range(n_total)]
        rows.append(O.Row(x, z))
    return rows


def emission_constraints(S, ops_list, n_p):
    """photons: first op is the emission CNOT from an emitter; later only 1-qubit gates or target of
    measurement-controlled ops; no two-qubit op between photons"""
    first = {}
    ok = True
    emitted = {p: 0 for p in range(n_p)}
    for op in ops_list:
        name = op[0]
        regs = [r for r in op[1:] if isinstance(r, tuple)]
        photons = [r for r in regs if r[0] == "p"]
        if len(regs) == 2 and len(photons) == 2:
            ok = False
        for r in photons:
            p = r[1]
            if p not in first:
                first[p] = op
                if not (name == "CNOT" and regs[0][0] == "e" and regs[1] == r):
                    ok = False
                else:
                    emitted[p] += 1
            else:
                if len(regs) == 2:
                    if name == "CNOT":
                        emitted[p] += 1
                    if not (name in ("ClassicalCNOT", "ClassicalCZ", "MeasurementCNOTandReset") and regs[1] == r):
                        ok = False
    S.prove("emission-constraints", ok)
    S.prove("each-photon-emitted-exactly-once", all(v == 1 for v in emitted.values()))


class Solve(Harness):
    weight = 100

    def input_space(self):
        return self.n * (self.n - 1) // 2

    def install(self):
        super().install()
        from symnp import stubs
        stubs.install_nx()

    def declare(self, S):
        return declare_graph(S, self.n)

    def body(self, S, spec):
        from graphiq.backends.stabilizer.compiler import StabilizerCompiler
        from graphiq.backends.stabilizer.tableau import StabilizerTableau
        from graphiq.backends.stabilizer.clifford_tableau import CliffordTableau
        from graphiq.metrics import Infidelity
        from graphiq.solvers.time_reversed_solver import TimeReversedSolver
        from graphiq.state import QuantumState

        n = self.n
        adj = spec["adj"].copy()
        if self.target_type == "stabilizer":
            if S.symbolic:
                from symnp.arr import sym_eye
                x = sym_eye(n)
            else:
                x = np.eye(n, dtype=int)
            target = QuantumState(CliffordTableau(StabilizerTableau([x, adj])), rep_type="s")
        else:
            if S.symbolic:
                from symnp.stubs import SymGraph
                import networkx as nx
                g = SymGraph(adj).to_real()
            else:
                import networkx as nx
                g = nx.from_numpy_array(adj)
            target = QuantumState(g, rep_type="g")
        compiler = StabilizerCompiler()
        compiler.measurement_determinism = self.det
        solver = TimeReversedSolver(target=target, metric=Infidelity(target), compiler=compiler)
        solver.solve()
        score, circuit = solver.result
        S.prove("reported-score-is-0", abs(float(score)) <= 1e-9)
        n_p, n_e = circuit.n_photons, circuit.n_emitters
        S.prove("n_photons", n_p == n)
        try:
            circuit.validate()
            S.prove("circuit-validates", True)
        except Exception as e:  # noqa
            S.prove("circuit-validates", False, detail=str(e))
        ops_list = chp.expand_circuit_ops(circuit)
        S.info["max_ops"] = len(ops_list)
        emission_constraints(S, ops_list, n_p)
        # emitter budget = max cut entropy of the target (C03)
        a = cells(spec["adj"])
        rows_t = graph_rows(a, n, n)
        for k in range(n):
            S.prove(f"n_emitters>=cut-entropy[{k}]", cut_count(rows_t, n, k) >= 2 ** max(0, k + 1 - n_e))
        S.prove("n_emitters-attained", b_or(*[cut_count(rows_t, n, k) == 2 ** (k + 1 - n_e) for k in range(n) if k + 1 - n_e >= 0]) if n_e > 0 else True)
        # reference execution with fresh outcomes
        sim, record = chp.run_reference(ops_list, n_p, n_e, lambda: S.aux_bit("reference outcome"))
        for i, g in enumerate(graph_rows(a, n, n_p + n_e)):
            S.prove(f"photons-stabilized-by-X_i-Z_N(i)[{i}]", sim.contains(g))
        for e in range(n_e):
            S.prove(f"emitter-disentangled-in-ket0[{e}]", sim.contains(O.Row.single(n_p + n_e, n_p + e, "Z")))


class SolveDm(Harness):
    """the circuit returned by the solver, compiled by the DENSITY-MATRIX backend from |0..0> (numerically concrete per
    path; the outcome vector is forked, impossible outcomes pruned by the contract p[outcome] > 0): the photons end in
    |G><G| and every emitter in |0><0| for every reachable outcome vector.  Auxiliary / enumerative in graphs and
    outcomes; the symbolic per-operation argument for the DM backend is C01's DmCompileOne."""

    weight = 60

    def install(self):
        super().install()
        from symnp import stubs, install as sinstall
        stubs.install_nx()
        sinstall.install_dm_state()

    def input_space(self):
        return self.n * (self.n - 1) // 2

    def declare(self, S):
        return declare_graph(S, self.n)

    def body(self, S, spec):
        from graphiq.backends.stabilizer.compiler import StabilizerCompiler
        from graphiq.backends.density_matrix.compiler import DensityMatrixCompiler
        from graphiq.backends.stabilizer.tableau import StabilizerTableau
        from graphiq.backends.stabilizer.clifford_tableau import CliffordTableau
        from graphiq.metrics import Infidelity
        from graphiq.solvers.time_reversed_solver import TimeReversedSolver
        from graphiq.state import QuantumState

        n = self.n
        adj = spec["adj"].copy()
        if S.symbolic:
            from symnp.arr import sym_eye
            from symnp.stubs import concretize_matrix
            a = concretize_matrix(adj)  # fork on every edge: the DM run is concrete numerics
            x = np.eye(n, dtype=int)
        else:
            a = np.asarray(adj)
            x = np.eye(n, dtype=int)
        deg = a.sum(axis=0)
        if (deg == 0).any():
            S.prove("skipped-isolated-vertex (known finding F2 of the stabilizer-typed harness)", True)
            return
        target = QuantumState(CliffordTableau(StabilizerTableau([x, a])), rep_type="s")
        comp = StabilizerCompiler()
        comp.measurement_determinism = 1
        solver = TimeReversedSolver(target=target, metric=Infidelity(target), compiler=comp)
        solver.solve()
        _, circuit = solver.result
        dmc = DensityMatrixCompiler()
        dmc.measurement_determinism = self.det
        state = dmc.compile(circuit)
        rho = np.asarray(state.rep_data.data, dtype=complex)
        n_p, n_e = circuit.n_photons, circuit.n_emitters
        # dense target: prod CZ |+>^n  (x) |0..0>
        psi = np.ones(2 ** n, dtype=complex) / np.sqrt(2 ** n)
        for i in range(n):
            for j in range(i + 1, n):
                if a[i, j]:
                    for idx in range(2 ** n):
                        if (idx >> (n - 1 - i)) & 1 and (idx >> (n - 1 - j)) & 1:
                            psi[idx] = -psi[idx]
        e0 = np.zeros(2 ** n_e, dtype=complex)
        e0[0] = 1
        full = np.kron(psi, e0)
        want = np.outer(full, full.conj())
        S.prove("dm-backend-final-state-is-|G><G|(x)|0..0><0..0|", bool(np.allclose(rho, want, atol=1e-9)))


def plan(tier):
    q = tier == "quick"
    jobs = []
    for n in ([1, 2, 3] if q else [1, 2, 3, 4]):
        jobs.append((Solve(n=n, target_type="stabilizer", det="probabilistic"), {}))
    for n in ([2, 3] if q else [2, 3, 4]):
        jobs.append((Solve(n=n, target_type="graph", det=1), {}))
    for n in ([2, 3] if q else [2, 3, 4]):
        for det in ((0, "probabilistic") if q else (0, 1, "probabilistic")):
            jobs.append((SolveDm(n=n, det=det), {}))
    if q:
        h = Solve(n=4, target_type="stabilizer", det=1)
        h.parallel = True
        jobs.append((h, {"time_budget": 600}))
        h = Solve(n=5, target_type="stabilizer", det=1)
        h.parallel = True
        h.partial_ok = True
        jobs.append((h, {"time_budget": 60, "chunk_paths": 8, "chunk_s": 8.0}))
        h = Solve(n=6, target_type="stabilizer", det=1)
        h.parallel = True
        h.partial_ok = True
        jobs.append((h, {"time_budget": 60, "chunk_paths": 4, "chunk_s": 8.0}))
    else:
        h = Solve(n=5, target_type="stabilizer", det="probabilistic")
        h.parallel = True
        h.partial_ok = True
        jobs.append((h, {"time_budget": 2 * 3600, "chunk_paths": 16}))
        # all 32768 labelled graphs on 6 vertices, compile() with forced outcome 1 (the reference execution still
        # quantifies over every outcome vector)
        h = Solve(n=6, target_type="stabilizer", det=1)
        h.parallel = True
        h.partial_ok = True
        jobs.append((h, {"time_budget": 4 * 3600, "chunk_paths": 16}))
    return jobs
