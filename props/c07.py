"""
C07 -- A Clifford tableau stays valid and tracks the right state under any history.

Inductive-step harnesses: one tableau-API operation from an ARBITRARY tableau satisfying the representation
invariant Inv (oracle.pauli.inv_conditions); Inv and the textbook image of the stabilizer group are asserted
afterwards.  Straight-line gates need no Inv: the row map is checked on every row of a fully symbolic table.
"""
from __future__ import annotations

import itertools

import numpy as np

from oracle import pauli as O
from symnp.sym import b_and, b_or, b_not, b_implies, b_iff
from vf.semantics import measure_rows_obligations
from vf.common import (Harness, cells, declare_clifford, assume_inv, fresh_clifford, pre_rows, post_rows, prove_inv,
                       declare_stabilizer, fresh_stabilizer, stab_rows)

EXPLANATION = (
    "Bounded symbolic execution of the real graphiq tableau functions (python, numpy object arrays whose cells are "
    "z3 terms; every data-dependent branch forks, each path is re-executed, infeasible sides are pruned by z3). "
    "Inputs are ARBITRARY tableaux within the size bound (gates: any 0/1 table; measurement/reset/removal/insert/"
    "tensor: any tableau satisfying Inv = binary, symplectic, stabilizer half Hermitian). On each path z3 "
    "discharges: Inv after the operation, and the stabilizer half equals the textbook image of the previous state "
    "(signed Pauli algebra derived numerically from 2x2/4x4 matrices). By induction over Inv this covers histories "
    "of any length within the size bound.")
ASSUMPTIONS = [
    "A1 z3 is sound", "A2 numpy object arrays apply python operators cell-wise (validated by the concrete-mode self-test)",
    "A3 int/float dtype distinctions are irrelevant for 0/1 data",
    "Inv is the induction hypothesis: binary table, symplectic pairing D_i.S_j = delta_ij, D.D = S.S = 0, stabilizer-half iphase = 0; destabilizer signs arbitrary",
    "np.random.randint(0,2) is replaced by a fresh symbolic outcome bit",
]
BOUNDS = {
    "quick": {"gates": "n<=4, every position", "measure/reset": "n<=2 all positions, determinism in {0,1,probabilistic}; budgeted looks at n=3 (three jobs) and n=4 (MeasureZ)",
              "insert/remove/tensor": "n<=2 (n1+n2<=3)", "row_sum": "two symbolic commuting rows, n = 4, 5"},
    "thorough": {"gates": "n<=8 every position, n=12 and 16 selected positions", "measure/reset": "n<=3 complete; n=4: four (operation, position, determinism) combinations with a 25 min budget each -- MeasureZ(n=4) completes (255 paths) with z3 arith.solver=2, a few dozen XOR-heavy obligations may stay undecided and are reported", "insert/remove/tensor": "n<=3", "row_sum": "n = 4, 5, 6, 8"},
}
OUTSIDE = ("n above the bounds (hundreds of qubits, n=200 random walks); Stabilizer.apply_x_measurement (calls a "
           "function that does not exist); performance")

GATE_FUNCS = {
    "H": "hadamard_gate", "P": "phase_gate", "P_dag": "phase_dagger_gate", "X": "x_gate", "Y": "y_gate", "Z": "z_gate",
    "CNOT": "cnot_gate", "CZ": "control_z_gate", "CY": "control_y_gate",
}


class Gate(Harness):
    """transformation.<gate>(tableau, position...) on a fully symbolic 2n x 2n table + phase (no Inv needed:
    gates act row-wise).  Obligation per row: new row == oracle conjugation of the old row (x, z and sign)."""

    weight = 1

    def input_space(self):
        return 4 * self.n * self.n + 2 * self.n

    def declare(self, S):
        return declare_clifford(S, self.n, destab_iphase=False)

    def body(self, S, spec):
        import graphiq.backends.stabilizer.functions.transformation as tr

        n = self.n
        T = fresh_clifford(spec)
        f = getattr(tr, GATE_FUNCS[self.gate])
        T2 = f(T, *self.pos)
        S.prove("returns-tableau", T2 is T or T2 is not None)
        old_d, old_s = pre_rows(spec)
        new_d, new_s = post_rows(T2)
        for i, (o, nw) in enumerate(zip(old_d + old_s, new_d + new_s)):
            want = O.apply_gate(o, (self.gate, *self.pos))
            S.prove(f"row-map[{i}]", O.row_eq(nw, want))
        S.prove("iphase-untouched", b_and(*[O.eq_bits(c, 0) for c in cells(T2.iphase)]))


class StabGate(Harness):
    """same gate functions on a StabilizerTableau (n x 2n) -- the functions are documented for both classes"""

    def input_space(self):
        return 2 * self.n * self.n + self.n

    def declare(self, S):
        return declare_stabilizer(S, self.n)

    def body(self, S, spec):
        import graphiq.backends.stabilizer.functions.transformation as tr

        T = fresh_stabilizer(spec)
        T2 = getattr(tr, GATE_FUNCS[self.gate])(T, *self.pos)
        for i, (o, nw) in enumerate(zip(stab_rows(spec), stab_rows(T2))):
            S.prove(f"row-map[{i}]", O.row_eq(nw, O.apply_gate(o, (self.gate, *self.pos))))


class Swap(Harness):
    """clifford.swap_gate: columns of both qubits exchanged; NOTE it also permutes rows' phases (q1<->q2 and
    q1+n<->q2+n) -- which is only state-preserving if rows are permuted too; we check the *state*: the stabilizer
    group after = SWAP-conjugated group before, and Inv."""

    def input_space(self):
        return 4 * self.n * self.n + 3 * self.n

    def declare(self, S):
        spec = declare_clifford(S, self.n)
        assume_inv(S, spec)
        return spec

    def body(self, S, spec):
        import graphiq.backends.stabilizer.functions.clifford as sfc

        T = fresh_clifford(spec)
        T2 = sfc.swap_gate(T, *self.pos)
        if not prove_inv(S, T2):
            return
        old_d, old_s = pre_rows(spec)
        new_d, new_s = post_rows(T2)
        for i, o in enumerate(old_s):
            want = O.apply_gate(o, ("SWAP", *self.pos))
            S.prove(f"swapped-generator-in-group[{i}]", O.member_with_destabs(want, new_s, new_d))


class RunCircuit(Harness):
    """transformation.run_circuit dispatch on every op name, forward and reverse (P <-> P_dag swapped, list
    reversed); oracle folds the gate list itself"""

    def input_space(self):
        return 4 * self.n * self.n + 2 * self.n

    def declare(self, S):
        return declare_clifford(S, self.n, destab_iphase=False)

    def body(self, S, spec):
        import graphiq.backends.stabilizer.functions.transformation as tr

        T = fresh_clifford(spec)
        circ = [tuple(g) for g in self.circuit]
        T2 = tr.run_circuit(T, list(circ), reverse=self.reverse)
        seq = list(circ)
        if self.reverse:
            seq = [(({"P": "P_dag", "P_dag": "P"}.get(g[0], g[0])),) + tuple(g[1:]) for g in reversed(seq)]
        old_d, old_s = pre_rows(spec)
        new_d, new_s = post_rows(T2)
        for i, (o, nw) in enumerate(zip(old_d + old_s, new_d + new_s)):
            want = o
            for g in seq:
                if g[0] == "I":
                    continue
                want = O.apply_gate(want, g)
            S.prove(f"row-map[{i}]", O.row_eq(nw, want))


# ------------------------------------------------------------------------------------------------------
def measurement_obligations(S, spec, T2, outcome, xp, q, det, tag=""):
    """O4: textbook semantics of a Z measurement of qubit q on the pre-state `spec`, observed post-state T2."""
    old_d, old_s = pre_rows(spec)
    new_d, new_s = post_rows(T2)
    return measure_rows_obligations(S, spec["n"], old_s, new_d, new_s, q, outcome, det, xp=xp, tag=tag)


def outcome_consistent_restriction(S, n, q, det, old_d, old_s, new_d, new_s, drop, tag):
    """Elements g of the old group with Z on q commute with the measurement; after it Z_q = (-1)^o, so g with its
    q-factor removed must be in the new group with sign g.sign XOR o -- for ONE outcome o that is (i) the forced value
    when the outcome is random and determinism is 0/1, (ii) the sign of +-Z_q in the old group when it is determined.
    `drop(row)` maps an old-group element to the new register layout (qubit removed or kept with identity)."""
    zq = O.Row.single(n, q, "Z")
    anti = [O.sp(g, zq) for g in old_s]
    random_case = b_or(*[O.eq_bits(a, 1) for a in anti])
    alts = []
    for o in (0, 1):
        conds = []
        if det in (0, 1):
            conds.append(b_implies(random_case, o == det))
        conds.append(b_implies(b_not(random_case), O.member_with_destabs(O.Row.single(n, q, "Z", sign=o), old_s, old_d)))
        for coeffs in itertools.product((0, 1), repeat=n):
            if not any(coeffs):
                continue
            g = O.Row.identity(n)
            for c, srow in zip(coeffs, old_s):
                if c:
                    g = O.mul(g, srow)
            z_on_q = b_and(O.eq_bits(g.x[q], 0), O.eq_bits(g.z[q], 1))
            r = g.copy()
            r.z[q] = 0
            r.hi = r.hi ^ o
            conds.append(b_implies(z_on_q, O.member_with_destabs(drop(r), new_s, new_d)))
        alts.append(b_and(*conds))
    S.prove(tag, b_or(*alts))


class MeasureZ(Harness):
    """clifford.z_measurement_gate from an arbitrary Inv tableau"""

    weight = 20

    def input_space(self):
        return 4 * self.n * self.n + 3 * self.n

    def declare(self, S):
        spec = declare_clifford(S, self.n)
        assume_inv(S, spec)
        return spec

    def body(self, S, spec):
        import graphiq.backends.stabilizer.functions.clifford as sfc

        T = fresh_clifford(spec)
        det = self.det
        T2, outcome, xp = sfc.z_measurement_gate(T, self.q, det)
        if not prove_inv(S, T2):
            return
        random_case = measurement_obligations(S, spec, T2, outcome, xp, self.q, det)
        if det == "probabilistic" and S.symbolic:
            # the draw is unconstrained: both outcomes are possible whenever the case is random
            if S.n_outcomes:
                S.witness("outcome-0-possible", O.eq_bits(outcome, 0))
                S.witness("outcome-1-possible", O.eq_bits(outcome, 1))


class MeasureXYZ(Harness):
    """clifford.measure_x / measure_y / measure_z: returned outcome is a possible outcome of measuring the Pauli
    on the pre-state: if +-P_q is in the group the outcome is its sign bit, otherwise forced / free."""

    weight = 10

    def declare(self, S):
        spec = declare_clifford(S, self.n)
        assume_inv(S, spec)
        return spec

    def body(self, S, spec):
        import graphiq.backends.stabilizer.functions.clifford as sfc

        n = self.n
        T = fresh_clifford(spec)
        outcome = getattr(sfc, "measure_" + self.basis.lower())(T, self.q, self.det)
        old_d, old_s = pre_rows(spec)
        pq = O.Row.single(n, self.q, self.basis)
        anti = [O.sp(g, pq) for g in old_s]
        random_case = b_or(*[O.eq_bits(a, 1) for a in anti])
        signed = O.Row.single(n, self.q, self.basis, sign=outcome)
        S.prove("deterministic-outcome-is-sign-in-group",
                b_implies(b_not(random_case), O.member_with_destabs(signed, old_s, old_d)))
        if self.det in (0, 1):
            S.prove("forced-outcome-when-random", b_implies(random_case, O.eq_bits(outcome, self.det)))
        S.prove("outcome-is-bit", b_or(O.eq_bits(outcome, 0), O.eq_bits(outcome, 1)))


class Reset(Harness):
    """clifford.reset_z/x/y: afterwards the qubit is in the intended eigenstate and the other qubits are in the
    post-measurement state (commuting part of the old group restricted ... kept with signs)."""

    weight = 25

    def declare(self, S):
        spec = declare_clifford(S, self.n)
        assume_inv(S, spec)
        return spec

    def body(self, S, spec):
        import graphiq.backends.stabilizer.functions.clifford as sfc

        n, q = self.n, self.q
        T = fresh_clifford(spec)
        T2 = getattr(sfc, "reset_" + self.basis.lower())(T, q, self.intended, self.det)
        if not prove_inv(S, T2):
            return
        old_d, old_s = pre_rows(spec)
        new_d, new_s = post_rows(T2)
        want = O.Row.single(n, q, self.basis, sign=self.intended)
        S.prove("qubit-in-intended-eigenstate", O.member_with_destabs(want, new_s, new_d))
        # elements of the old group acting trivially on q survive unchanged (they commute with everything done to q)
        # generators of { g in old group : g_q = I }: decided per generator pair/triple through implications
        for coeffs in itertools.product((0, 1), repeat=n):
            if not any(coeffs):
                continue
            g = O.Row.identity(n)
            for c, s in zip(coeffs, old_s):
                if c:
                    g = O.mul(g, s)
            trivial_on_q = b_and(O.eq_bits(g.x[q], 0), O.eq_bits(g.z[q], 0))
            S.prove(f"old-element-trivial-on-q-kept[{''.join(map(str, coeffs))}]",
                    b_implies(trivial_on_q, O.member_with_destabs(g, new_s, new_d)))
        # elements with Z on q commute with the measurement: their restriction away from q is kept with the sign fixed by
        # the measurement outcome (one consistent outcome for all elements; forced value when random and determinism 0/1)
        outcome_consistent_restriction(S, n, q, self.det, old_d, old_s, new_d, new_s, lambda r: r,
                                       "old-elements-with-Z-on-q-restricted-with-outcome-sign")


class Insert(Harness):
    """clifford.insert_qubit / add_qubit: |0> at the requested position, other qubits and their signs unchanged"""

    weight = 5

    def declare(self, S):
        spec = declare_clifford(S, self.n)
        assume_inv(S, spec)
        return spec

    def body(self, S, spec):
        import graphiq.backends.stabilizer.functions.clifford as sfc

        n, pos = self.n, self.pos
        T = fresh_clifford(spec)
        T2 = sfc.add_qubit(T) if self.via == "add_qubit" else sfc.insert_qubit(T, pos)
        S.prove("n-grows", T2.n_qubits == n + 1)
        if not prove_inv(S, T2):
            return
        old_d, old_s = pre_rows(spec)
        new_d, new_s = post_rows(T2)
        S.prove("new-qubit-in-ket0", O.member_with_destabs(O.Row.single(n + 1, pos, "Z"), new_s, new_d))
        for i, g in enumerate(old_s):
            x = list(g.x[:pos]) + [0] + list(g.x[pos:])
            z = list(g.z[:pos]) + [0] + list(g.z[pos:])
            S.prove(f"old-generator-kept-with-sign[{i}]", O.member_with_destabs(O.Row(x, z, g.hi, g.lo), new_s, new_d))


class StabInsert(Harness):
    """functions.stabilizer.insert_qubit on a StabilizerTableau"""

    def declare(self, S):
        spec = declare_stabilizer(S, self.n)
        return spec

    def body(self, S, spec):
        import graphiq.backends.stabilizer.functions.stabilizer as sfs

        n, pos = self.n, self.pos
        T2 = sfs.insert_qubit(fresh_stabilizer(spec), pos)
        S.prove("n-grows", T2.n_qubits == n + 1)
        new = stab_rows(T2)
        old = stab_rows(spec)
        S.prove("new-row-is-plus-Z", O.row_eq(new[pos], O.Row.single(n + 1, pos, "Z")))
        for i, g in enumerate(old):
            x = list(g.x[:pos]) + [0] + list(g.x[pos:])
            z = list(g.z[:pos]) + [0] + list(g.z[pos:])
            S.prove(f"old-row-kept[{i}]", O.row_eq(new[i if i < pos else i + 1], O.Row(x, z, g.hi, g.lo)))


def _drop(row, q):
    return O.Row(row.x[:q] + row.x[q + 1:], row.z[:q] + row.z[q + 1:], row.hi, row.lo)


class Remove(Harness):
    """clifford.remove_qubit (and partial_trace over one qubit): Inv on n-1 qubits; every old group element that
    acts trivially on q is kept (restricted) with its sign -- in particular an unentangled qubit leaves the others
    unchanged; elements with Z on q are kept up to the sign fixed by the measurement outcome."""

    weight = 25

    def declare(self, S):
        spec = declare_clifford(S, self.n)
        assume_inv(S, spec)
        return spec

    def body(self, S, spec):
        import graphiq.backends.stabilizer.functions.clifford as sfc

        n, q = self.n, self.q
        T = fresh_clifford(spec)
        if self.via == "partial_trace":
            keep = [i for i in range(n) if i != q]
            T2 = sfc.partial_trace(T, keep, None, self.det)
        else:
            T2 = sfc.remove_qubit(T, q, self.det)
        S.prove("n-shrinks", T2.n_qubits == n - 1)
        if n - 1 == 0:
            return
        if not prove_inv(S, T2):
            return
        old_d, old_s = pre_rows(spec)
        new_d, new_s = post_rows(T2)
        for coeffs in itertools.product((0, 1), repeat=n):
            if not any(coeffs):
                continue
            g = O.Row.identity(n)
            for c, s in zip(coeffs, old_s):
                if c:
                    g = O.mul(g, s)
            trivial = b_and(O.eq_bits(g.x[q], 0), O.eq_bits(g.z[q], 0))
            S.prove(f"element-trivial-on-q-kept[{''.join(map(str, coeffs))}]",
                    b_implies(trivial, O.member_with_destabs(_drop(g, q), new_s, new_d)))
        outcome_consistent_restriction(S, n, q, self.det, old_d, old_s, new_d, new_s, lambda r: _drop(r, q),
                                       "elements-with-Z-on-q-restricted-with-outcome-sign")


class Tensor(Harness):
    """clifford.tensor([A, B]): Inv and the group is <S_A (x) I, I (x) S_B> with signs"""

    weight = 5

    def declare(self, S):
        a = declare_clifford(S, self.n1, tag="A")
        b = declare_clifford(S, self.n2, tag="B")
        assume_inv(S, a)
        assume_inv(S, b)
        return {"a": a, "b": b}

    def body(self, S, spec):
        import graphiq.backends.stabilizer.functions.clifford as sfc

        n1, n2 = self.n1, self.n2
        A, B = fresh_clifford(spec["a"]), fresh_clifford(spec["b"])
        T2 = sfc.tensor([A, B])
        S.prove("n-adds", T2.n_qubits == n1 + n2)
        if not prove_inv(S, T2):
            return
        new_d, new_s = post_rows(T2)
        _, sa = pre_rows(spec["a"])
        _, sb = pre_rows(spec["b"])
        for i, g in enumerate(sa):
            S.prove(f"A-generator[{i}]", O.member_with_destabs(O.Row(g.x + [0] * n2, g.z + [0] * n2, g.hi, g.lo), new_s, new_d))
        for i, g in enumerate(sb):
            S.prove(f"B-generator[{i}]", O.member_with_destabs(O.Row([0] * n1 + g.x, [0] * n1 + g.z, g.hi, g.lo), new_s, new_d))


class Constructors(Harness):
    """create_n_ket0/ket1/plus_state, CliffordTableau(int), copy, __eq__, to_stabilizer on symbolic tableaux"""

    def declare(self, S):
        spec = declare_clifford(S, self.n)
        return spec

    def body(self, S, spec):
        import graphiq.backends.stabilizer.functions.clifford as sfc
        from graphiq.backends.stabilizer.clifford_tableau import CliffordTableau

        n = self.n
        for fn, kind, sign in ((sfc.create_n_ket0_state, "Z", 0), (sfc.create_n_ket1_state, "Z", 1), (sfc.create_n_plus_state, "X", 0)):
            T = fn(n)
            if not prove_inv(S, T, tag=f"inv:{fn.__name__}"):
                return
            d, s = post_rows(T)
            for q in range(n):
                S.prove(f"{fn.__name__}[{q}]", O.member_with_destabs(O.Row.single(n, q, kind, sign), s, d))
        T = fresh_clifford(spec)
        C = T.copy()
        S.prove("copy-equal", C == T)
        S.prove("copy-table", np.array_equal(C.table, spec["table"]))
        # equality must notice a single flipped sign or cell
        for i in range(2 * n):
            C = T.copy()
            C.phase[i] = 1 ^ C.phase[i]
            S.prove(f"eq-detects-sign-flip[{i}]", b_not(C == T))
        C = T.copy()
        C.table[0, 0] = 1 ^ C.table[0, 0]
        S.prove("eq-detects-cell-flip", b_not(C == T))
        st = T.to_stabilizer()
        S.prove("to_stabilizer-table", np.array_equal(st.table, spec["table"][n:]))
        S.prove("to_stabilizer-phase", np.array_equal(st.phase, spec["phase"][n:]))


class Wrappers(Harness):
    """Stabilizer / MixedStabilizer methods delegate to the right tableau function with the right position
    (item 7): every unitary method = oracle row map; apply_measurement / reset_qubit / remove_qubit / partial_trace
    = the obligations of the underlying operation; probabilities of a mixture untouched."""

    weight = 30

    def declare(self, S):
        spec = declare_clifford(S, self.n)
        assume_inv(S, spec)
        return spec

    def body(self, S, spec):
        from graphiq.backends.stabilizer.state import Stabilizer, MixedStabilizer

        n = self.n
        old_d, old_s = pre_rows(spec)

        def make():
            T = fresh_clifford(spec)
            if self.cls == "Stabilizer":
                return Stabilizer(T), (lambda st: st.tableau)
            return MixedStabilizer([(0.25, T)]), (lambda st: st.mixture[0][1])

        unitary = {"apply_hadamard": ("H", 1), "apply_phase": ("P", 1), "apply_phase_dagger": ("P_dag", 1), "apply_sigmax": ("X", 1),
                   "apply_sigmay": ("Y", 1), "apply_sigmaz": ("Z", 1), "apply_cnot": ("CNOT", 2), "apply_cz": ("CZ", 2)}
        for meth, (g, arity) in (unitary.items() if self.part == "unitary" else []):
            for pos in ([(q,) for q in range(n)] if arity == 1 else [(a, b) for a in range(n) for b in range(n) if a != b]):
                st, tab = make()
                if arity == 1:
                    getattr(st, meth)(pos[0])
                else:
                    getattr(st, meth)(control=pos[0], target=pos[1])
                nd, ns = post_rows(tab(st))
                S.prove(f"{meth}{list(pos)}", b_and(*[O.row_eq(a, O.apply_gate(o, (g, *pos))) for a, o in zip(nd + ns, old_d + old_s)]))
                if self.cls == "MixedStabilizer":
                    S.prove(f"{meth}{list(pos)}-weight-untouched", st.mixture[0][0] == 0.25 and len(st.mixture) == 1)
        for q in (range(n) if self.part == "measure" else []):
            st, tab = make()
            out = st.apply_measurement(q, measurement_determinism=self.det)
            outcome = out if self.cls == "Stabilizer" else out[0]
            T2 = tab(st)
            if prove_inv(S, T2, tag=f"inv:apply_measurement[{q}]"):
                nd, ns = post_rows(T2)
                measure_rows_obligations(S, n, old_s, nd, ns, q, outcome, self.det, tag=f"apply_measurement[{q}]:")
            st, tab = make()
            st.reset_qubit(q, measurement_determinism=self.det)
            T2 = tab(st)
            if prove_inv(S, T2, tag=f"inv:reset_qubit[{q}]"):
                nd, ns = post_rows(T2)
                S.prove(f"reset_qubit[{q}]-leaves-ket0", O.member_with_destabs(O.Row.single(n, q, "Z"), ns, nd))
        if self.cls == "Stabilizer" and self.part == "unitary":
            st, tab = make()
            st.apply_circuit([("H", 0), ("P", n - 1)])
            nd, ns = post_rows(tab(st))
            S.prove("apply_circuit", b_and(*[O.row_eq(a, O.apply1(O.apply1(o, "H", 0), "P", n - 1)) for a, o in zip(nd + ns, old_d + old_s)]))
        if n >= 2 and self.part == "resize":
            for q in range(n):
                st, tab = make()
                st.remove_qubit(q, measurement_determinism=self.det)
                S.prove(f"remove_qubit[{q}]-n", tab(st).n_qubits == n - 1)
                st, tab = make()
                st.partial_trace([k for k in range(n) if k != q], n * [2])
                S.prove(f"partial_trace[{q}]-n", tab(st).n_qubits == n - 1)
                st, tab = make()
                st.trace_out_qubits([k for k in range(n) if k != q], measurement_determinism=self.det)
                S.prove(f"trace_out_qubits-keeps-listed[{q}]-n", tab(st).n_qubits == n - 1)


def plan(tier):
    jobs = []
    q = tier == "quick"
    # -- gates ------------------------------------------------------------------------------------------
    gate_ns = [1, 2, 3, 4] if q else [1, 2, 3, 4, 6, 8, 12, 16]
    for n in gate_ns:
        for g in ("H", "P", "P_dag", "X", "Y", "Z"):
            for p in (range(n) if n <= 8 else (0, 1, n // 2, n - 1)):
                jobs.append((Gate(n=n, gate=g, pos=[p]), {}))
        for g in ("CNOT", "CZ", "CY"):
            for a in range(n):
                for b in range(n):
                    if a != b:
                        if n > 4 and not (a in (0, n - 1) or b in (0, n - 1) or abs(a - b) == 1):
                            continue
                        if n > 8 and not ((a, b) in ((0, 1), (1, 0), (0, n - 1), (n - 1, 0), (n // 2, n - 1), (n - 1, n - 2))):
                            continue
                        jobs.append((Gate(n=n, gate=g, pos=[a, b]), {}))
    for n in ([2] if q else [2, 3]):
        for g in ("H", "P", "P_dag", "X", "Y", "Z"):
            for p in range(n):
                jobs.append((StabGate(n=n, gate=g, pos=[p]), {}))
        for g in ("CNOT", "CZ", "CY"):
            for a, b in itertools.permutations(range(n), 2):
                jobs.append((StabGate(n=n, gate=g, pos=[a, b]), {}))
    # the row product used by measurement / reset / removal, on two fully symbolic commuting rows (one path per size):
    # sign rule against the oracle product; sizes beyond the tableau harnesses are cheap here
    from props.c05 import RowSum
    for n in ([2, 3, 4, 5] if q else [2, 3, 4, 5, 6, 8]):
        jobs.append((RowSum(n=n, commuting=True), {}))
    circ = [["H", 0], ["P", 1], ["CNOT", 0, 1], ["P_dag", 0], ["X", 1], ["I", 0], ["Y", 0], ["Z", 1], ["CZ", 1, 0], ["P", 0]]
    for rev in (False, True):
        jobs.append((RunCircuit(n=2, circuit=circ, reverse=rev), {}))
    # -- measurement family -----------------------------------------------------------------------------
    ns = [1, 2] if q else [1, 2, 3]
    for n in ns:
        for qpos in range(n):
            for det in (0, 1, "probabilistic"):
                jobs.append((MeasureZ(n=n, q=qpos, det=det), {}))
                for basis in "XYZ":
                    if n <= 2:
                        jobs.append((MeasureXYZ(n=n, q=qpos, det=det, basis=basis), {}))
            for basis in "ZXY":
                for intended in (0, 1):
                    for det in ((0, 1, "probabilistic") if n <= 2 else (1, "probabilistic")):
                        if n == 3 and basis != "Z" and intended == 1:
                            continue
                        jobs.append((Reset(n=n, q=qpos, basis=basis, intended=intended, det=det), {}))
    if q:
        # budgeted look at n=3 (complete in the thorough tier)
        for h in (MeasureZ(n=3, q=1, det="probabilistic"), Remove(n=3, q=2, det=1, via="remove_qubit"), Reset(n=3, q=0, basis="Z", intended=1, det=0)):
            h.parallel = True
            h.partial_ok = True
            jobs.append((h, {"time_budget": 40, "chunk_paths": 4, "chunk_s": 8.0}))
        # and a short look at n=4 (a few dozen of the 255 paths; complete in the thorough tier)
        h = MeasureZ(n=4, q=2, det="probabilistic")
        h.parallel = True
        h.partial_ok = True
        h.arith_solver = 2
        h.path_timeout_s = 60
        jobs.append((h, {"time_budget": 45, "chunk_paths": 2, "chunk_s": 10.0, "solver_timeout_ms": 20000}))
    if not q:
        # n = 4 measurement family: most paths are decided in seconds, some symplectic (XOR-heavy) obligations defeat
        # CDCL; budgeted exploration with a short solver time-out, undecided paths count as unexplored
        for h in (MeasureZ(n=4, q=0, det=1), MeasureZ(n=4, q=3, det="probabilistic"),
                  Remove(n=4, q=1, det=0, via="remove_qubit"), Reset(n=4, q=2, basis="Z", intended=1, det=1)):
            h.parallel = True
            h.partial_ok = True
            h.path_timeout_s = 600
            h.arith_solver = 2  # see symnp.engine.Session: decides the XOR-heavy symplectic obligations much faster
            jobs.append((h, {"time_budget": 1500, "chunk_paths": 2, "chunk_s": 30.0, "solver_timeout_ms": 120000}))
    for n in ([2] if q else [2, 3]):
        for a, b in itertools.combinations(range(n), 2):
            jobs.append((Swap(n=n, pos=[a, b]), {}))
    # -- resize family ----------------------------------------------------------------------------------
    for n in ([1, 2] if q else [1, 2, 3]):
        for pos in range(n + 1):
            jobs.append((Insert(n=n, pos=pos, via="insert_qubit"), {}))
            jobs.append((StabInsert(n=n, pos=pos), {}))
        jobs.append((Insert(n=n, pos=n, via="add_qubit"), {}))
    for n in ([1, 2] if q else [1, 2, 3]):
        for qpos in range(n):
            for det in (0, 1, "probabilistic"):
                jobs.append((Remove(n=n, q=qpos, det=det, via="remove_qubit"), {}))
            jobs.append((Remove(n=n, q=qpos, det="probabilistic", via="partial_trace"), {}))
    for n1, n2 in ([(1, 1), (1, 2)] if q else [(1, 1), (1, 2), (2, 1)]):
        jobs.append((Tensor(n1=n1, n2=n2), {}))
    for n in ([1, 2] if q else [1, 2, 3]):
        jobs.append((Constructors(n=n), {}))
    for cls in ("Stabilizer", "MixedStabilizer"):
        jobs.append((Wrappers(n=2, cls=cls, det=1, part="unitary"), {}))
        for det in ((1,) if q else (0, 1, "probabilistic")):
            jobs.append((Wrappers(n=2, cls=cls, det=det, part="measure"), {}))
            jobs.append((Wrappers(n=2, cls=cls, det=det, part="resize"), {}))
    return jobs
