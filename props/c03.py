"""
C03 -- emitter budget is minimal: height function equals bipartite entanglement.
"""
from __future__ import annotations

import numpy as np

from oracle import pauli as O
from symnp.sym import b_and, b_or, b_not, b_implies, SymInt
from vf.common import (Harness, cells, declare_stabilizer, assume_valid_stabilizer, fresh_stabilizer, stab_rows,
                       declare_graph)
from vf.semantics import group_elements

EXPLANATION = (
    "Bounded symbolic execution of the real rref / height_func_list / height_function / height_dict / height_max / "
    "TimeReversedSolver.determine_n_emitters on an ARBITRARY valid generating set (n<=2 quick, 3 thorough; all signs) "
    "and on [I | Gamma] for an arbitrary simple graph. Oracle O6: the entanglement entropy of the cut {0..k} | rest is "
    "(k+1) - log2 #{g in S : g acts trivially on qubits > k}, the count being expanded over the 2^n group elements as a "
    "sum of z3 indicator terms; for a graph state this is by construction the GF(2) rank of the adjacency block joining "
    "the two sides. Per path every returned height h_k must satisfy count_k == 2^(k+1-h_k); gauge independence follows "
    "because the oracle is a property of the group. determine_n_emitters == max_k h_k. The part 'allocates exactly this "
    "many emitters and emits each photon exactly once' is asserted on every circuit of the C02 run (see C02 evidence).")
ASSUMPTIONS = ["A1 z3 sound", "A2 numpy object-array semantics", "input precondition: commuting independent generators"]
BOUNDS = {"quick": {"general tableaux": "n<=2", "graph states": "n<=4 (both the x/z-matrix route and the graph= route) + budgeted look at n=6"},
          "thorough": {"general tableaux": "n<=3", "graph states": "n<=5 complete, n=6 under a 2 h budget per route"}}
OUTSIDE = "minimality over other emission orders (the statement fixes the order); emitter_sorted / relabel glue; n above the bounds"


def cut_count(rows, n, k):
    """#{g in <rows> : g trivial on qubits k+1..n-1}  as an int-like (identity included).  Signs play no role for
    the support of a group element, so only the x/z bits are combined (XOR over the chosen generators)."""
    import itertools

    count = 1
    outside = list(range(k + 1, n))
    for coeffs in itertools.product((0, 1), repeat=len(rows)):
        if not any(coeffs):
            continue
        conds = []
        for j in outside:
            ax, az = 0, 0
            for c, r in zip(coeffs, rows):
                if c:
                    ax = ax ^ r.x[j]
                    az = az ^ r.z[j]
            conds.append(O.eq_bits(ax, 0))
            conds.append(O.eq_bits(az, 0))
        triv = b_and(*conds)
        count = count + (int(triv) if isinstance(triv, bool) else triv.as_int())
    return count


def check_heights(S, rows, n, heights, tag=""):
    for k in range(n):
        h = int(heights[k])
        S.prove(f"{tag}height-nonneg[{k}]", 0 <= h <= k + 1)
        if 0 <= h <= k + 1:
            S.prove(f"{tag}height-equals-cut-entropy[{k}]", cut_count(rows, n, k) == 2 ** (k + 1 - h))


class HeightGeneral(Harness):
    weight = 40

    def input_space(self):
        return 2 * self.n * self.n + self.n

    def declare(self, S):
        spec = declare_stabilizer(S, self.n)
        assume_valid_stabilizer(S, spec)
        return spec

    def body(self, S, spec):
        import graphiq.backends.stabilizer.functions.height as height
        from graphiq.solvers.time_reversed_solver import TimeReversedSolver

        n = self.n
        rows = stab_rows(spec)
        T = fresh_stabilizer(spec)
        hl = height.height_func_list(T.x_matrix.copy(), T.z_matrix.copy())
        S.prove("length", len(hl) == n)
        check_heights(S, rows, n, hl)
        T = fresh_stabilizer(spec)
        ne = TimeReversedSolver.determine_n_emitters(T)
        S.prove("determine_n_emitters-is-max-height", int(ne) == max(int(h) for h in hl))
        T = fresh_stabilizer(spec)
        hm = height.height_max(x_matrix=T.x_matrix.copy(), z_matrix=T.z_matrix.copy())
        S.prove("height_max", int(hm) == max([0] + [int(h) for h in hl]))
        T = fresh_stabilizer(spec)
        hd = height.height_dict(x_matrix=T.x_matrix.copy(), z_matrix=T.z_matrix.copy())
        S.prove("height_dict", [int(hd[k]) for k in range(-1, n)] == [0] + [int(h) for h in hl])
        for k in range(n):
            T = fresh_stabilizer(spec)
            S.prove(f"height_function[{k}]", int(height.height_function(T.x_matrix.copy(), T.z_matrix.copy(), k)) == int(hl[k]))


class HeightGraph(Harness):
    weight = 30

    def input_space(self):
        return self.n * (self.n - 1) // 2

    def declare(self, S):
        return declare_graph(S, self.n)

    def body(self, S, spec):
        import graphiq.backends.stabilizer.functions.height as height
        from graphiq.solvers.time_reversed_solver import TimeReversedSolver
        from graphiq.backends.stabilizer.tableau import StabilizerTableau

        n = self.n
        adj = cells(spec["adj"])
        rows = [O.Row([1 if j == i else 0 for j in range(n)], [adj[i][j] for j in range(n)]) for i in range(n)]
        if S.symbolic:
            from symnp.arr import sym_eye
            x = sym_eye(n)
        else:
            x = np.eye(n, dtype=int)
        hl = height.height_func_list(x, spec["adj"].copy())
        check_heights(S, rows, n, hl)
        # explicit GF(2) rank of the adjacency block A x complement(A) by kernel counting
        for k in range(n - 1):
            h = int(hl[k])
            kernel = 0
            import itertools
            for c in itertools.product((0, 1), repeat=k + 1):
                cols = []
                for j in range(k + 1, n):
                    acc = 0
                    for i in range(k + 1):
                        if c[i]:
                            acc = acc ^ adj[i][j]
                    cols.append(O.eq_bits(acc, 0))
                z = b_and(*cols)
                kernel = kernel + (int(z) if isinstance(z, bool) else z.as_int())
            if 0 <= h <= k + 1:
                S.prove(f"height-equals-GF2-rank-of-cut-block[{k}]", kernel == 2 ** (k + 1 - h))
        T = StabilizerTableau([x.copy(), spec["adj"].copy()])
        ne = TimeReversedSolver.determine_n_emitters(T)
        S.prove("determine_n_emitters-is-max-height", int(ne) == max(int(h) for h in hl))


class HeightDictGraph(Harness):
    """the graph= entry points: height_dict(graph=G) / height_max(graph=G) for a symbolic networkx-like graph equal
    the cut entropies of |G> (and therefore agree with the x/z-matrix route)"""

    weight = 30

    def input_space(self):
        return self.n * (self.n - 1) // 2

    def install(self):
        super().install()
        from symnp import stubs, install as sinstall
        stubs.install_nx()
        import networkx as nx
        from symnp.stubs import SymGraph

        class _GraphClasses:  # height_dict tests isinstance(graph, nx.classes.graph.Graph)
            class graph:
                class _Meta(type):
                    def __instancecheck__(cls, obj):
                        return isinstance(obj, (nx.Graph, SymGraph))

                class Graph(metaclass=_Meta):
                    pass

        stubs.NX_PROXY.classes = _GraphClasses

    def declare(self, S):
        return declare_graph(S, self.n)

    def body(self, S, spec):
        import graphiq.backends.stabilizer.functions.height as height
        import networkx as nx

        n = self.n
        adj = cells(spec["adj"])
        rows = [O.Row([1 if j == i else 0 for j in range(n)], [adj[i][j] for j in range(n)]) for i in range(n)]
        if S.symbolic:
            from symnp.stubs import SymGraph
            g = SymGraph(spec["adj"].copy())
        else:
            g = nx.from_numpy_array(np.asarray(spec["adj"]))
        hd = height.height_dict(graph=g)
        S.prove("keys", sorted(hd.keys()) == list(range(-1, n)))
        S.prove("imaginary-position", int(hd[-1]) == 0)
        check_heights(S, rows, n, [hd[k] for k in range(n)], tag="height_dict(graph=):")
        if S.symbolic:
            g = SymGraph(spec["adj"].copy())
        hm = height.height_max(graph=g)
        S.prove("height_max(graph=)-is-max", int(hm) == max([0] + [int(hd[k]) for k in range(n)]))


def plan(tier):
    q = tier == "quick"
    jobs = [(HeightGeneral(n=1), {}), (HeightGeneral(n=2), {})]
    for n in ([2, 3, 4] if q else [2, 3, 4]):
        jobs.append((HeightGraph(n=n), {}))
    for n in ([2, 3, 4] if q else [2, 3, 4, 5]):
        h = HeightDictGraph(n=n)
        h.parallel = n >= 5
        jobs.append((h, {"time_budget": 3000}))
    for hcls in (HeightDictGraph, HeightGraph):
        # n = 6: all 32768 labelled graphs; budgeted in quick, generous budget in thorough
        h = hcls(n=6)
        h.parallel = True
        h.partial_ok = True
        jobs.append((h, {"time_budget": 40 if q else 2 * 3600, "chunk_paths": 8, "chunk_s": 8.0}))
    if not q:
        h = HeightGeneral(n=3)
        h.parallel = True
        jobs.append((h, {"time_budget": 3000}))
        h = HeightGraph(n=5)
        h.parallel = True
        jobs.append((h, {"time_budget": 3000}))
    return jobs
