"""
C09 -- local-Clifford equivalence of graph states is decided correctly and constructively.
"""
from __future__ import annotations

import itertools

import numpy as np

from oracle import pauli as O
from symnp.sym import b_and, b_or, b_not, b_implies, b_xor, b_iff
from vf.common import Harness, cells, declare_graph

EXPLANATION = (
    "Bounded symbolic execution of the real is_lc_equivalent (incl. _coeff_maker, row_reduction, _col_finder, "
    "_solution_basis_finder through the real float inverse of the concretised pivot block), local_clifford_ops, "
    "lc_graph_operations, local_comp_graph, converter_gate_list / lc_check / state_converter_circuit on SYMBOLIC pairs "
    "of adjacency matrices (all ordered pairs of labelled simple graphs within the size bound, connected or not). "
    "Soundness: a returned local Clifford Q is valid and satisfies the Van den Nest condition, and -- semantically -- the "
    "gates named by local_clifford_ops, applied by the independent Pauli oracle to the generators of |G1>, give "
    "commuting elements of the group of |G2> up to signs; the gate lists of converter_gate_list / lc_check map |G1> "
    "onto |G2> exactly, signs included. Completeness: when the answer is False, z3 must refute the existence of ANY "
    "valid local Clifford (the 4n bits of Q are free variables of the obligation); a satisfying assignment is the "
    "counter-example. local_comp_graph: toggles exactly the edges among the neighbours, involution (symbolic graph, one "
    "path). lc_graph_operations: the returned vertex sequence, applied with the oracle's local complementation, "
    "connects the two graphs. Oracle lemma: one local complementation implies a valid Q exists (z3, exists-query).")
ASSUMPTIONS = ["A1 z3 sound", "A2 numpy object-array semantics", "A5 networkx conversions faithful",
               "Van den Nest et al.: local-Clifford equivalence of graph states <=> LC-orbit membership; inside the bounds "
               "one direction is discharged by the solver (LC step => Q exists), the other is what lc_graph_operations must construct and is checked on its output"]
BOUNDS = {"quick": {"pairs": "all ordered pairs n<=3; constructed pairs (G,G), (G,LC_0 G) n=5; tableau second state n<=2 (+budgeted n=3)", "local_comp_graph": "n<=5 every vertex, n=11 six vertices (single path: the graph stays symbolic)", "lemma": "n<=4"},
          "thorough": {"pairs": "all ordered pairs n<=4; constructed pairs n=5 every vertex, n=6 (G,G),(G,LC_0 G); tableau second state n<=3", "local_comp_graph": "n<=6 every vertex, n=8,11,12 six vertices", "lemma": "n<=5"}}
OUTSIDE = ("Graph.local_complementation (pure networkx edge toggling); iso_equal_check / iso_graph_finder; n>=5 pairs; "
           "random mode's 1000-trial loop beyond the shared len(basis)<5 branch")


def lc_oracle(adj, v, n):
    """local complementation at v on a cell matrix: toggle edges among neighbours of v"""
    new = [[adj[i][j] for j in range(n)] for i in range(n)]
    for j in range(n):
        for k in range(n):
            if j != k and j != v and k != v:
                new[j][k] = adj[j][k] ^ (adj[v][j] & adj[v][k])
    return new


def q_valid(Q, n):
    """Q[i] = (a, b, c, d): a d + b c = 1 (mod 2)"""
    return b_and(*[O.eq_bits((Q[i][0] & Q[i][3]) ^ (Q[i][1] & Q[i][2]), 1) for i in range(n)])


def q_equation(Q, g1, g2, n):
    """sum_i g1[i][j] g2[i][k] c_i + g1[j][k] a_k + g2[j][k] d_j + delta_jk b_j = 0  for all j,k
    (Q = [[A,B],[C,D]] acting on (z;x); columns (g1_j ; e_j) must be symplectically orthogonal to (g2_k ; e_k))"""
    cs = []
    for j in range(n):
        for k in range(n):
            acc = 0
            for i in range(n):
                acc = acc ^ (g1[i][j] & g2[i][k] & Q[i][2])
            acc = acc ^ (g1[j][k] & Q[k][0]) ^ (g2[j][k] & Q[j][3])
            if j == k:
                acc = acc ^ Q[j][1]
            cs.append(O.eq_bits(acc, 0))
    return b_and(*cs)


def graph_rows(adj, n):
    return [O.Row([1 if j == i else 0 for j in range(n)], [adj[i][j] for j in range(n)]) for i in range(n)]


def apply_named(rows, names):
    """names[i] like 'P H' for qubit i: a product, the LAST listed factor acts first"""
    out = []
    for r in rows:
        w = r
        for q, nm in enumerate(names):
            for g in reversed(nm.split()):
                if g != "I":
                    w = O.apply1(w, g, q)
        out.append(w)
    return out


def in_group_up_to_sign(row, gens):
    neg = row.copy()
    neg.hi = 1 ^ neg.hi
    return b_or(O.member_by_enumeration(row, gens), O.member_by_enumeration(neg, gens))


class NxHarness(Harness):
    def install(self):
        super().install()
        from symnp import stubs
        stubs.install_nx()


class LocalComp(NxHarness):
    def input_space(self):
        return self.n * (self.n - 1) // 2

    def declare(self, S):
        return declare_graph(S, self.n)

    def body(self, S, spec):
        import graphiq.backends.lc_equivalence_check as lc
        import networkx as nx
        n, v = self.n, self.v

        def mk(adj):
            if S.symbolic:
                from symnp.stubs import SymGraph
                return SymGraph(adj)
            return nx.from_numpy_array(np.asarray(adj))

        def adj_of(g):
            if S.symbolic and not isinstance(g, nx.Graph):
                return cells(g.adj_matrix)
            return cells(nx.to_numpy_array(g, nodelist=range(n)).astype(int))

        a0 = cells(spec["adj"])
        g1 = lc.local_comp_graph(mk(spec["adj"].copy()), v)
        a1 = adj_of(g1)
        want = lc_oracle(a0, v, n)
        for i in range(n):
            for j in range(n):
                S.prove(f"edge[{i},{j}]", O.eq_bits(a1[i][j], want[i][j]))
        g2 = lc.local_comp_graph(g1, v)
        a2 = adj_of(g2)
        S.prove("involution", b_and(*[O.eq_bits(a2[i][j], a0[i][j]) for i in range(n) for j in range(n)]))


class Lemma(Harness):
    """oracle lemma: if G2 = LC_v(G1) then a valid local Clifford Q with the Van den Nest condition exists
    (exists-query: expected `sat`; posed as a witness)"""

    no_obligations_ok = True

    def declare(self, S):
        spec = declare_graph(S, self.n)
        spec["Q"] = [[S.bit(f"Q_{i}_{k}") for k in range(4)] for i in range(self.n)]
        return spec

    def body(self, S, spec):
        n, v = self.n, self.v
        a0 = cells(spec["adj"])
        a1 = lc_oracle(a0, v, n)
        Q = spec["Q"]
        # the textbook witness: on v: sqrt(-iX) ~ (a,b,c,d) acting on (z;x) = [[1,1],[0,1]]^T ..., neighbours: sqrt(iZ).
        # Rather than trusting a closed form we let z3 confirm that for EVERY graph some Q works: forall G exists Q.
        # forall-exists is posed per graph by the closed form candidates below and proved as an obligation.
        cands = []
        for on_v, on_nb in itertools.product(range(6), repeat=2):
            cands.append((on_v, on_nb))
        SIX = [(1, 0, 0, 1), (0, 1, 1, 0), (1, 1, 0, 1), (1, 1, 1, 0), (0, 1, 1, 1), (1, 0, 1, 1)]
        alts = []
        for on_v, on_nb in cands:
            Qc = []
            for i in range(n):
                if i == v:
                    Qc.append(SIX[on_v])
                else:
                    # neighbour of v gets on_nb, others identity (selected by the symbolic edge bit)
                    nb = a0[v][i]
                    Qc.append(tuple((nb & SIX[on_nb][k]) ^ ((1 ^ nb) & SIX[0][k]) for k in range(4)))
            alts.append(b_and(q_valid(Qc, n), q_equation(Qc, a0, a1, n)))
        S.prove("one-local-complementation-has-a-uniform-local-Clifford-witness", b_or(*alts))


class IsLcEquivalent(NxHarness):
    weight = 80

    def install(self):
        super().install()
        if self.mode == "random":
            from symnp import install as sinstall
            from symnp.engine import OutsideClaim

            import graphiq.backends.lc_equivalence_check as lcmod
            real = lcmod._random_checker
            flag = self

            def two_trials(reduced, col_list, trial_count=1000, seed=0):
                # the 1000-trial loop is bounded to 2 trials with SYMBOLIC draws: enough to judge the soundness of a
                # "yes" found in the first or in a later trial; a "no" after 2 trials is not judged (outside the claim)
                flag._went_random = True
                return real(reduced, col_list, trial_count=2, seed=seed)

            sinstall.stub("graphiq.backends.lc_equivalence_check", "_random_checker", two_trials,
                          "random mode: the real _random_checker runs with trial_count=2 and symbolic np.random.randint draws; "
                          "only the soundness of a 'yes' is judged on such paths")

    def input_space(self):
        return self.n * (self.n - 1)

    def declare(self, S):
        return {"g1": declare_graph(S, self.n, tag="A"), "g2": declare_graph(S, self.n, tag="B")}

    def body(self, S, spec):
        import graphiq.backends.lc_equivalence_check as lc

        n = self.n
        a1, a2 = cells(spec["g1"]["adj"]), cells(spec["g2"]["adj"])
        self._went_random = False
        ok, sol = lc.is_lc_equivalent(spec["g1"]["adj"].copy(), spec["g2"]["adj"].copy(), mode=self.mode)
        if not ok and self._went_random and S.symbolic:
            S.info["random_no_not_judged"] = 1
            S.prove("random-mode-no-after-2-trials-not-judged", True)
            return
        if not ok and self.mode == "random" and not S.symbolic:
            # concrete replay of a random-mode path: the real 1000-trial loop ran; a "no" is not judged either
            return
        if not ok:
            S.info["answered_no"] = 1
            Q = [[S.aux_bit(f"Q{i}{k}") for k in range(4)] for i in range(n)]
            S.prove("no-valid-local-Clifford-exists-when-answer-is-no", b_not(b_and(q_valid(Q, n), q_equation(Q, a1, a2, n))))
            return
        S.info["answered_yes"] = 1
        Q = [[sol[i][0, 0], sol[i][0, 1], sol[i][1, 0], sol[i][1, 1]] for i in range(n)]
        S.prove("solution-is-binary", b_and(*[b_or(O.eq_bits(c, 0), O.eq_bits(c, 1)) for q in Q for c in q]))
        S.prove("solution-is-valid-local-Clifford", q_valid(Q, n))
        S.prove("solution-satisfies-LC-condition", q_equation(Q, a1, a2, n))
        # semantic: the named gates map the group of |G1> onto the group of |G2> up to signs
        names = lc.local_clifford_ops(sol)
        S.prove("every-qubit-gets-a-gate-name", len(names) == n)
        if len(names) == n:
            img = apply_named(graph_rows(a1, n), names)
            gens2 = graph_rows(a2, n)
            for i, r in enumerate(img):
                S.prove(f"image-of-generator-in-group-of-G2-up-to-sign[{i}]", in_group_up_to_sign(r, gens2))
        # the local-complementation sequence
        if self.with_lc_ops:
            seq1 = lc.lc_graph_operations(spec["g1"]["adj"].copy(), sol)
            cur = a1
            for v in seq1:
                cur = lc_oracle(cur, int(v), n)
            fwd = b_and(*[O.eq_bits(cur[i][j], a2[i][j]) for i in range(n) for j in range(n)])
            S.prove("lc_graph_operations(G1, Q)-sequence-transforms-G1-into-G2", fwd)
            seq2 = lc.find_lc_operations(spec["g1"]["adj"].copy(), spec["g2"]["adj"].copy(), mode=self.mode)
            cur = a1
            for v in seq2:
                cur = lc_oracle(cur, int(v), n)
            S.prove("find_lc_operations(G1, G2)-sequence-transforms-G1-into-G2",
                    b_and(*[O.eq_bits(cur[i][j], a2[i][j]) for i in range(n) for j in range(n)]))


class Converter(NxHarness):
    """converter_gate_list / lc_check on symbolic graphs: whenever they answer yes the returned gate list maps |G1>
    exactly (signs included) onto |G2>"""

    weight = 90

    def declare(self, S):
        return {"g1": declare_graph(S, self.n, tag="A"), "g2": declare_graph(S, self.n, tag="B")}

    def body(self, S, spec):
        import graphiq.backends.stabilizer.functions.local_cliff_equi_check as lce
        import graphiq.backends.lc_equivalence_check as lc
        import networkx as nx
        n = self.n
        a1, a2 = cells(spec["g1"]["adj"]), cells(spec["g2"]["adj"])

        def mk(adj):
            if S.symbolic:
                from symnp.stubs import SymGraph
                return SymGraph(adj.copy()).to_real()
            return nx.from_numpy_array(np.asarray(adj))

        g1, g2 = mk(spec["g1"]["adj"]), mk(spec["g2"]["adj"])
        if self.api == "converter_gate_list":
            ok, _ = lc.is_lc_equivalent(nx.to_numpy_array(g1), nx.to_numpy_array(g2))
            if not ok:
                S.prove("skipped-not-equivalent", True)
                return
            gates = lce.converter_gate_list(g1, g2)
        elif self.api == "state_converter_circuit":
            ok, _ = lc.is_lc_equivalent(nx.to_numpy_array(g1), nx.to_numpy_array(g2))
            if not ok:
                S.prove("skipped-not-equivalent", True)
                return
            from oracle import chp
            circuit = lce.state_converter_circuit(g1, g2, validate=False)
            S.prove("circuit-registers", circuit.n_photons == n and circuit.n_emitters == 0)
            gates = []
            for op in chp.expand_circuit_ops(circuit):
                S.prove(f"one-qubit-photon-op[{len(gates)}]", op[0] in chp.ONE_Q and op[1][0] == "p")
                gates.append((chp.ONE_Q[op[0]], op[1][1]))
        else:
            ok, gates = lce.lc_check(g1, g2, validate=False)
            ok0, _ = lc.is_lc_equivalent(nx.to_numpy_array(g1), nx.to_numpy_array(g2))
            S.prove("lc_check-agrees-with-is_lc_equivalent", bool(ok) == bool(ok0))
            if not ok:
                return
        gens2 = graph_rows(a2, n)
        for i, r in enumerate(graph_rows(a1, n)):
            w = r
            for g in gates:
                if g[0] != "I":
                    w = O.apply1(w, g[0], g[1])
            S.prove(f"gate-list-maps-generator-into-group-of-G2-with-sign[{i}]", O.member_by_enumeration(w, gens2))


class IsLcConstructed(NxHarness):
    """pairs that are LC equivalent BY CONSTRUCTION, for sizes where the pair space is out of reach: G symbolic,
    G2 := G (v = -1) or G2 := oracle local complementation of G at v.  The answer must be yes (soundness of the
    returned Q is checked as in IsLcEquivalent); a 'no' is a violation unless it is the known finding F4."""

    weight = 85

    def input_space(self):
        return self.n * (self.n - 1) // 2

    def declare(self, S):
        return declare_graph(S, self.n)

    def body(self, S, spec):
        import graphiq.backends.lc_equivalence_check as lc

        n, v = self.n, self.v
        a1 = cells(spec["adj"])
        a2 = a1 if v < 0 else lc_oracle(a1, v, n)
        adj2 = spec["adj"].copy()
        for i in range(n):
            for j in range(n):
                adj2[i, j] = a2[i][j]
        ok, sol = lc.is_lc_equivalent(spec["adj"].copy(), adj2, mode="deterministic")
        if not ok:
            S.info["answered_no"] = 1
            S.fail("equivalent-by-construction-but-answered-no", "is_lc_equivalent returned False for G2 = " + ("G" if v < 0 else f"LC_{v}(G)"))
            return
        Q = [[sol[i][0, 0], sol[i][0, 1], sol[i][1, 0], sol[i][1, 1]] for i in range(n)]
        S.prove("solution-is-valid-local-Clifford", q_valid(Q, n))
        S.prove("solution-satisfies-LC-condition", q_equation(Q, a1, a2, n))


class LcCheckTableau(NxHarness):
    """lc_check / state_converter_circuit with a TABLEAU as second state (the property covers graphs, adjacency
    matrices and tableaux): state1 = symbolic graph, state2 = arbitrary valid stabilizer tableau.  Whenever the
    answer is yes, the returned gate list maps |G1> exactly (signs included) onto state2."""

    weight = 90

    def input_space(self):
        return self.n * (self.n - 1) // 2 + 2 * self.n * self.n + self.n

    def declare(self, S):
        from vf.common import declare_stabilizer, assume_valid_stabilizer
        spec = {"g1": declare_graph(S, self.n, tag="A"), "t2": declare_stabilizer(S, self.n, tag="T")}
        assume_valid_stabilizer(S, spec["t2"])
        return spec

    def body(self, S, spec):
        import graphiq.backends.stabilizer.functions.local_cliff_equi_check as lce
        from vf.common import fresh_stabilizer, stab_rows
        import networkx as nx
        n = self.n
        a1 = cells(spec["g1"]["adj"])
        if S.symbolic:
            from symnp.stubs import SymGraph
            g1 = SymGraph(spec["g1"]["adj"].copy()).to_real()
        else:
            g1 = nx.from_numpy_array(np.asarray(spec["g1"]["adj"]))
        t2 = fresh_stabilizer(spec["t2"])
        if getattr(self, "kind", "stabilizer") == "clifford":
            from graphiq.backends.stabilizer.clifford_tableau import CliffordTableau
            t2 = CliffordTableau(t2)
        if self.order == "graph-first":
            ok, gates = lce.lc_check(g1, t2, validate=False)
            src, dst = graph_rows(a1, n), stab_rows(spec["t2"])
        else:
            ok, gates = lce.lc_check(t2, g1, validate=False)
            src, dst = stab_rows(spec["t2"]), graph_rows(a1, n)
        if not ok:
            S.info["answered_no"] = 1
            S.prove("answered-no", True)
            return
        S.info["answered_yes"] = 1
        for i, r in enumerate(src):
            w = r
            for g in gates:
                if g[0] != "I":
                    w = O.apply1(w, g[0], g[1])
            S.prove(f"gate-list-maps-generator-into-target-group-with-sign[{i}]", O.member_by_enumeration(w, dst))


def plan(tier):
    q = tier == "quick"
    jobs = []
    for n in ([2, 3, 4, 5, 11] if q else [2, 3, 4, 5, 6, 8, 11, 12]):
        for v in (range(n) if n <= 6 else (0, 1, 2, n // 2, n - 2, n - 1)):
            jobs.append((LocalComp(n=n, v=v), {}))
    for n in ([2, 3, 4] if q else [2, 3, 4, 5]):
        for v in range(n):
            jobs.append((Lemma(n=n, v=v), {}))
    for n in ([2, 3] if q else [2, 3]):
        jobs.append((IsLcEquivalent(n=n, mode="deterministic", with_lc_ops=True), {}))
        jobs.append((IsLcEquivalent(n=n, mode="random", with_lc_ops=False), {}))
        jobs.append((Converter(n=n, api="converter_gate_list"), {}))
        jobs.append((Converter(n=n, api="lc_check"), {}))
        jobs.append((Converter(n=n, api="state_converter_circuit"), {}))
    for v in ([-1, 0] if q else [-1, 0, 1, 2, 3, 4]):
        h = IsLcConstructed(n=5, v=v)
        h.parallel = True
        jobs.append((h, {"time_budget": 1200, "chunk_paths": 16}))
    if not q:
        for v in (-1, 0):
            h = IsLcConstructed(n=6, v=v)
            h.parallel = True
            h.partial_ok = True
            jobs.append((h, {"time_budget": 2 * 3600, "chunk_paths": 32}))
    for order in ("graph-first", "tableau-first"):
        jobs.append((LcCheckTableau(n=2, order=order), {}))
        jobs.append((LcCheckTableau(n=2, order=order, kind="clifford"), {}))
        h = LcCheckTableau(n=3, order=order)
        h.parallel = True
        h.partial_ok = True
        jobs.append((h, {"time_budget": 45 if q else 2400, "chunk_paths": 8, "chunk_s": 8.0}))
    if not q:
        for h in (IsLcEquivalent(n=4, mode="deterministic", with_lc_ops=True), Converter(n=4, api="lc_check")):
            h.parallel = True
            jobs.append((h, {"time_budget": 3600}))
    return jobs
