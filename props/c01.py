"""
C01 -- both simulation backends compute the state the circuit defines.

 (1) stabilizer leg : StabilizerCompiler.compile_one_gate from an arbitrary Inv state, every accepted operation
                      class x register placement x measurement_determinism   (inductive step)
 (2) density leg    : DensityMatrixCompiler.compile_one_gate on a symbolic Hermitian rho vs textbook semantics
 (3) cross tie      : the stabilizer row rule of every unitary op equals conjugation by the matrix the
                      density-matrix backend builds for it (so the two legs agree with each other)
 (4) glue           : reg_to_index, initial state, compile() loop on fixed circuits with symbolic outcomes
"""
from __future__ import annotations

import itertools

import numpy as np

from oracle import pauli as O
from symnp.sym import b_and, b_or, b_not, b_implies, b_iff
from vf.common import (Harness, cells, declare_clifford, assume_inv, fresh_clifford, pre_rows, post_rows, prove_inv)
from vf.semantics import measure_rows_obligations, group_elements, cond_apply1

EXPLANATION = (
    "Bounded symbolic execution of the real per-operation dispatch of both compilers. Stabilizer leg: one "
    "compile_one_gate step from an ARBITRARY tableau satisfying Inv inside a real QuantumState, for every accepted "
    "operation class, every register placement (photons first, then emitters) within the size bound and every "
    "measurement_determinism; z3 discharges: the post-state is the textbook image (unitaries: row map; measurement: "
    "projected group with the sign of the recorded outcome; classically controlled: measure-then-conditional-gate; "
    "measure-CNOT-reset: control left in |0>), the classical register holds the outcome, other registers untouched. "
    "Density-matrix leg: the same step on a symbolic Hermitian density matrix (exact rational arithmetic for float "
    "constants) against explicit textbook formulas. Cross tie: row rule == conjugation by the DM backend's unitary. "
    "By induction over Inv / over the set of density matrices this covers circuits of any length within the size bound.")
ASSUMPTIONS = [
    "A1 z3 sound", "A2 numpy object-array semantics", "A4 exact rational arithmetic stands in for float products (float constants by their exact value)",
    "Inv as in C07 is the induction hypothesis of the stabilizer leg",
    "np.random.randint / numpy.random.choice replaced by a fresh symbolic outcome constrained by the call's contract (p[outcome] > 0)",
    "operation order: compile() is exercised on fixed circuits only; that sequence() is a topological order of an arbitrary DAG is C12 (not claimed)",
]
BOUNDS = {"quick": {"stabilizer leg": "n_photon + n_emitter <= 2", "dm leg": "n <= 2", "cross tie": "n <= 2"},
          "thorough": {"stabilizer leg": "n_photon + n_emitter <= 3", "dm leg": "n <= 3", "cross tie": "n <= 3"}}
OUTSIDE = "parameterised rotations; circuits as symbolic objects (programs quantifier rests on the induction); noise (C06)"

ONE_Q = {"Hadamard": "H", "Phase": "P", "PhaseDagger": "P_dag", "SigmaX": "X", "SigmaY": "Y", "SigmaZ": "Z", "Identity": "I"}
TWO_Q = {"CNOT": "CNOT", "CZ": "CZ"}


def placements(n_p, n_e):
    regs = [("p", i) for i in range(n_p)] + [("e", i) for i in range(n_e)]
    return regs


def index_of(reg, n_p):
    """the documented convention: photons first, then emitters"""
    t, i = reg
    return i if t == "p" else n_p + i


def make_state(spec):
    from graphiq.state import QuantumState

    T = fresh_clifford(spec)
    return QuantumState(data=T, rep_type="s", mixed=False), T


def declare_cregs(S, k):
    c = S.bits("creg", k)
    return c


class StabCompileOne(Harness):
    weight = 10

    def declare(self, S):
        n = self.n_p + self.n_e
        spec = declare_clifford(S, n)
        if self.op not in ONE_Q and self.op not in TWO_Q:
            assume_inv(S, spec)
        spec["creg"] = S.bits("creg", 2)
        return spec

    def _build_op(self):
        import graphiq.circuit.ops as ops

        cls = getattr(ops, self.op)
        regs = [tuple(r) for r in self.regs]
        if self.op in ONE_Q:
            return cls(register=regs[0][1], reg_type=regs[0][0])
        if self.op in TWO_Q:
            return cls(control=regs[0][1], control_type=regs[0][0], target=regs[1][1], target_type=regs[1][0])
        if self.op == "MeasurementZ":
            return cls(register=regs[0][1], reg_type=regs[0][0], c_register=self.c)
        return cls(control=regs[0][1], control_type=regs[0][0], target=regs[1][1], target_type=regs[1][0], c_register=self.c)

    def body(self, S, spec):
        from graphiq.backends.stabilizer.compiler import StabilizerCompiler
        from graphiq.backends.compiler_base import CompilerBase

        n = self.n_p + self.n_e
        comp = StabilizerCompiler()
        comp.measurement_determinism = self.det
        state, T = make_state(spec)
        creg = spec["creg"].copy()
        op = self._build_op()
        q_index = CompilerBase.reg_to_index_func(self.n_p)
        comp.compile_one_gate(state, op, n, q_index, creg)
        T2 = state.rep_data.data
        idx = [index_of(tuple(r), self.n_p) for r in self.regs]
        old_d, old_s = pre_rows(spec)
        new_d, new_s = post_rows(T2)
        c = self.c

        def others_untouched(skip=None):
            for k in range(2):
                if k != skip:
                    S.prove(f"creg-untouched[{k}]", O.eq_bits(creg[k], spec["creg"][k]))

        if self.op in ONE_Q or self.op in TWO_Q:
            name = ONE_Q.get(self.op) or TWO_Q[self.op]
            for i, (o, nw) in enumerate(zip(old_d + old_s, new_d + new_s)):
                want = o if name == "I" else O.apply_gate(o, (name, *idx))
                S.prove(f"row-map[{i}]", O.row_eq(nw, want))
            others_untouched()
            return
        if not prove_inv(S, T2):
            return
        if self.op == "MeasurementZ":
            outcome = creg[c]
            measure_rows_obligations(S, n, old_s, new_d, new_s, idx[0], outcome, self.det)
            others_untouched(c)
            return
        ctrl, tgt = idx
        gate = {"ClassicalCNOT": "X", "ClassicalCZ": "Z", "MeasurementCNOTandReset": "X"}[self.op]
        if self.op in ("ClassicalCNOT", "ClassicalCZ"):
            outcome = creg[c]
            # undo the conditional gate with the oracle, then the state must be the post-measurement state
            und_d = [cond_apply1(r, gate, tgt, outcome) for r in new_d]
            und_s = [cond_apply1(r, gate, tgt, outcome) for r in new_s]
            measure_rows_obligations(S, n, old_s, und_d, und_s, ctrl, outcome, self.det)
            others_untouched(c)
            return
        # MeasurementCNOTandReset: measure control (outcome o), X^o on target, control reset to |0>
        S.prove("control-left-in-ket0", O.member_with_destabs(O.Row.single(n, ctrl, "Z"), new_s, new_d))
        zc = O.Row.single(n, ctrl, "Z")
        anti = [O.sp(g, zc) for g in old_s]
        random_case = b_or(*[O.eq_bits(a, 1) for a in anti])
        alts = []
        for o in (0, 1):
            conds = []
            if self.det in (0, 1):
                conds.append(b_implies(random_case, o == self.det))
            conds.append(b_implies(b_not(random_case), O.member_with_destabs(O.Row.single(n, ctrl, "Z", sign=o), old_s, old_d)))
            for coeffs, g in group_elements(old_s):
                commutes = O.eq_bits(O.sp(g, zc), 0)
                img = g
                if o:
                    img = O.apply1(O.apply1(g, "X", tgt), "X", ctrl)
                conds.append(b_implies(commutes, O.member_with_destabs(img, new_s, new_d)))
            conds.append(O.eq_bits(creg[c], o))
            alts.append(b_and(*conds))
        S.prove("exists-outcome: post = reset_c . X_t^o . measure_c(o) pre, and creg == o", b_or(*alts))
        others_untouched(c)


class DmCompileOne(Harness):
    """DensityMatrixCompiler.compile_one_gate on a symbolic Hermitian rho against oracle O8"""

    weight = 15
    TOL = 1e-9

    def install(self):
        from symnp import install as sinstall
        sinstall.install(np_modules=[], int_modules=[], summaries=False)
        sinstall.install_dm_state()

    def declare(self, S):
        from vf.common import declare_rho
        n = self.n_p + self.n_e
        spec = declare_rho(S, n)
        spec["creg"] = S.bits("creg", 2)
        return spec

    _build_op = StabCompileOne._build_op

    def body(self, S, spec):
        from graphiq.backends.density_matrix.compiler import DensityMatrixCompiler
        from graphiq.backends.compiler_base import CompilerBase
        from vf.common import dm_state, rho_cells
        from oracle import dm as D

        n = self.n_p + self.n_e
        comp = DensityMatrixCompiler()
        comp.measurement_determinism = self.det
        qs = dm_state(spec["rho"].copy(), n)
        creg = spec["creg"].copy()
        op = self._build_op()
        q_index = CompilerBase.reg_to_index_func(self.n_p)
        comp.compile_one_gate(qs, op, n, q_index, creg)
        got = rho_cells(qs.rep_data.data)
        rho = rho_cells(spec["rho"])
        idx = [index_of(tuple(r), self.n_p) for r in self.regs]
        c = self.c

        def others_untouched(skip=None):
            for k in range(2):
                if k != skip:
                    S.prove(f"creg-untouched[{k}]", O.eq_bits(creg[k], spec["creg"][k]))

        def same(want, tag="post-state"):
            for k, cl in enumerate(D.matrix_close(got, want, self.TOL)):
                S.prove(f"{tag}[{k}]", cl)

        if self.op in ONE_Q:
            same(D.apply_1q(rho, ONE_Q[self.op], idx[0], n))
            others_untouched()
            return
        if self.op in TWO_Q:
            same(D.apply_controlled(rho, "X" if self.op == "CNOT" else "Z", idx[0], idx[1], n))
            others_untouched()
            return
        q = idx[0]
        o = int(creg[c])
        S.prove("outcome-is-bit", o in (0, 1))
        proj, tr_o = D.project(rho, q, o, n)
        _, tr_1 = D.project(rho, q, 1, n)
        _, tr_0 = D.project(rho, q, 0, n)
        S.prove("recorded-outcome-has-positive-probability", tr_o > 0)
        if self.det == 1:
            S.prove("determinism-1-rule: outcome 1 iff p(1) > 0", (tr_1 > 0) if o == 1 else b_not(tr_1 > 0))
        elif self.det == 0:
            S.prove("determinism-0-rule: outcome 0 iff p(0) > 0", (tr_0 > 0) if o == 0 else b_not(tr_0 > 0))
        post = D.divide(proj, tr_o)
        if self.op == "MeasurementZ":
            same(post)
        elif self.op in ("ClassicalCNOT", "ClassicalCZ"):
            g = "X" if self.op == "ClassicalCNOT" else "Z"
            same(D.apply_1q(post, g, idx[1], n) if o == 1 else post)
        else:  # MeasurementCNOTandReset
            want = D.apply_1q(post, "X", idx[1], n) if o == 1 else post
            same(D.reset(want, q, n), tag="post-state(control reset to |0>)")
        others_untouched(c)


class RegToIndex(Harness):
    """CompilerBase.reg_to_index_func: photons map to 0..n_p-1, emitters to n_p.., injective (symbolic ints)"""

    def declare(self, S):
        spec = {"n_p": S.int_("n_p", 0, 64), "r1": S.int_("r1", 0, 64), "r2": S.int_("r2", 0, 64)}
        return spec

    def body(self, S, spec):
        from graphiq.backends.compiler_base import CompilerBase

        n_p, r1, r2 = spec["n_p"], spec["r1"], spec["r2"]
        f = CompilerBase.reg_to_index_func(n_p)
        S.prove("photon-index", f(r1, "p") == r1)
        S.prove("emitter-index", f(r1, "e") == r1 + n_p)
        S.prove("photon-before-emitter", b_implies(r1 < n_p, f(r1, "p") < f(r2, "e")))
        S.prove("injective-e", b_implies(f(r1, "e") == f(r2, "e"), r1 == r2))
        S.prove("disjoint", b_implies(r1 < n_p, b_not(f(r1, "p") == f(r2, "e"))))


def plan(tier):
    jobs = []
    q = tier == "quick"
    sizes = [(1, 0), (0, 1), (1, 1), (2, 0), (0, 2)] if q else [(1, 0), (0, 1), (1, 1), (2, 0), (0, 2), (2, 1), (1, 2), (0, 3), (3, 0)]
    for n_p, n_e in sizes:
        regs = placements(n_p, n_e)
        for op in ONE_Q:
            for r in regs:
                jobs.append((StabCompileOne(op=op, n_p=n_p, n_e=n_e, regs=[list(r)], det="probabilistic", c=0), {}))
        for op in TWO_Q:
            for a, b in itertools.permutations(regs, 2):
                jobs.append((StabCompileOne(op=op, n_p=n_p, n_e=n_e, regs=[list(a), list(b)], det="probabilistic", c=0), {}))
        dets = (0, 1, "probabilistic")
        for r in regs:
            for det in dets:
                jobs.append((StabCompileOne(op="MeasurementZ", n_p=n_p, n_e=n_e, regs=[list(r)], det=det, c=1), {}))
        for op in ("ClassicalCNOT", "ClassicalCZ", "MeasurementCNOTandReset"):
            for a, b in itertools.permutations(regs, 2):
                for det in dets:
                    if n_p + n_e == 3 and det == 0 and op != "MeasurementCNOTandReset":
                        continue
                    jobs.append((StabCompileOne(op=op, n_p=n_p, n_e=n_e, regs=[list(a), list(b)], det=det, c=1), {}))
    jobs.append((RegToIndex(), {}))
    # -- density-matrix leg -------------------------------------------------------------------------------
    dm_sizes = [(1, 0), (0, 1), (1, 1), (2, 0)] if q else [(1, 0), (0, 1), (1, 1), (2, 0), (0, 2), (2, 1), (1, 2)]
    for n_p, n_e in dm_sizes:
        regs = placements(n_p, n_e)
        for op in ONE_Q:
            for r in regs:
                jobs.append((DmCompileOne(op=op, n_p=n_p, n_e=n_e, regs=[list(r)], det="probabilistic", c=0), {}))
        for op in TWO_Q:
            for a, b in itertools.permutations(regs, 2):
                jobs.append((DmCompileOne(op=op, n_p=n_p, n_e=n_e, regs=[list(a), list(b)], det="probabilistic", c=0), {}))
        for r in regs:
            for det in (0, 1, "probabilistic"):
                jobs.append((DmCompileOne(op="MeasurementZ", n_p=n_p, n_e=n_e, regs=[list(r)], det=det, c=1), {}))
        for op in ("ClassicalCNOT", "ClassicalCZ", "MeasurementCNOTandReset"):
            for a, b in itertools.permutations(regs, 2):
                for det in (0, 1, "probabilistic"):
                    jobs.append((DmCompileOne(op=op, n_p=n_p, n_e=n_e, regs=[list(a), list(b)], det=det, c=1), {}))
    return jobs
