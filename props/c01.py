"""
C01 -- both simulation backends compute the state the circuit defines.

 (1) stabilizer leg : StabilizerCompiler.compile_one_gate from an arbitrary Inv state, every accepted operation
                      class x register placement x measurement_determinism   (inductive step)
 (2) density leg    : DensityMatrixCompiler.compile_one_gate on a symbolic Hermitian rho vs textbook semantics
 (3) cross tie      : the stabilizer row rule of every unitary op equals conjugation by the matrix the
                      density-matrix backend builds for it (so the two legs agree with each other)
 (4) glue           : reg_to_index, initial state, compile() loop on fixed circuits with symbolic outcomes
"""
from __future__ import annotations

import itertools

import numpy as np

from oracle import pauli as O
from symnp.sym import b_and, b_or, b_not, b_implies, b_iff
from vf.common import (Harness, cells, declare_clifford, assume_inv, fresh_clifford, pre_rows, post_rows, prove_inv)
from vf.semantics import measure_rows_obligations, group_elements, cond_apply1

EXPLANATION = (
    "Bounded symbolic execution of the real per-operation dispatch of both compilers. Stabilizer leg: one "
    "compile_one_gate step from an ARBITRARY tableau satisfying Inv inside a real QuantumState, for every accepted "
    "operation class, every register placement (photons first, then emitters) within the size bound and every "
    "measurement_determinism; z3 discharges: the post-state is the textbook image (unitaries: row map; measurement: "
    "projected group with the sign of the recorded outcome; classically controlled: measure-then-conditional-gate; "
    "measure-CNOT-reset: control left in |0>), the classical register holds the outcome, other registers untouched. "
    "Density-matrix leg: the same step on a symbolic Hermitian density matrix (exact rational arithmetic for float "
    "constants) against explicit textbook formulas. Cross tie: row rule == conjugation by the DM backend's unitary. "
    "By induction over Inv / over the set of density matrices this covers circuits of any length within the size bound.")
CROSSHAIR = ["xh/g_function_contract.py"]
ASSUMPTIONS = [
    "A1 z3 sound", "A2 numpy object-array semantics", "A4 exact rational arithmetic stands in for float products (float constants by their exact value)",
    "Inv as in C07 is the induction hypothesis of the stabilizer leg",
    "np.random.randint / numpy.random.choice replaced by a fresh symbolic outcome constrained by the call's contract (p[outcome] > 0)",
    "operation order: compile() is exercised on fixed circuits only; that sequence() is a topological order of an arbitrary DAG is C12 (not claimed)",
]
BOUNDS = {"quick": {"stabilizer leg": "n_photon + n_emitter <= 2 (+ two budgeted three-register placements)", "dm leg": "n <= 2", "cross tie": "n <= 2", "row product used by every measurement (row_sum)": "two symbolic commuting rows, n = 4, 5"},
          "thorough": {"stabilizer leg": "n_photon + n_emitter <= 3", "dm leg": "n <= 3", "cross tie": "n <= 3", "row product used by every measurement (row_sum)": "n = 4, 5, 6, 8"}}
OUTSIDE = "parameterised rotations; circuits as symbolic objects (programs quantifier rests on the induction); noise (C06)"

ONE_Q = {"Hadamard": "H", "Phase": "P", "PhaseDagger": "P_dag", "SigmaX": "X", "SigmaY": "Y", "SigmaZ": "Z", "Identity": "I"}
TWO_Q = {"CNOT": "CNOT", "CZ": "CZ"}


def placements(n_p, n_e):
    regs = [("p", i) for i in range(n_p)] + [("e", i) for i in range(n_e)]
    return regs


def index_of(reg, n_p):
    """the documented convention: photons first, then emitters"""
    t, i = reg
    return i if t == "p" else n_p + i


def make_state(spec):
    from graphiq.state import QuantumState

    T = fresh_clifford(spec)
    return QuantumState(data=T, rep_type="s", mixed=False), T


def declare_cregs(S, k):
    c = S.bits("creg", k)
    return c


class StabCompileOne(Harness):
    weight = 10

    def declare(self, S):
        n = self.n_p + self.n_e
        spec = declare_clifford(S, n)
        if self.op not in ONE_Q and self.op not in TWO_Q:
            assume_inv(S, spec)
        spec["creg"] = S.bits("creg", 2)
        return spec

    def _build_op(self):
        import graphiq.circuit.ops as ops

        cls = getattr(ops, self.op)
        regs = [tuple(r) for r in self.regs]
        if self.op in ONE_Q:
            return cls(register=regs[0][1], reg_type=regs[0][0])
        if self.op in TWO_Q:
            return cls(control=regs[0][1], control_type=regs[0][0], target=regs[1][1], target_type=regs[1][0])
        if self.op == "MeasurementZ":
            return cls(register=regs[0][1], reg_type=regs[0][0], c_register=self.c)
        return cls(control=regs[0][1], control_type=regs[0][0], target=regs[1][1], target_type=regs[1][0], c_register=self.c)

    def body(self, S, spec):
        from graphiq.backends.stabilizer.compiler import StabilizerCompiler
        from graphiq.backends.compiler_base import CompilerBase

        n = self.n_p + self.n_e
        comp = StabilizerCompiler()
        comp.measurement_determinism = self.det
        state, T = make_state(spec)
        creg = spec["creg"].copy()
        op = self._build_op()
        q_index = CompilerBase.reg_to_index_func(self.n_p)
        comp.compile_one_gate(state, op, n, q_index, creg)
        T2 = state.rep_data.data
        idx = [index_of(tuple(r), self.n_p) for r in self.regs]
        old_d, old_s = pre_rows(spec)
        new_d, new_s = post_rows(T2)
        c = self.c

        def others_untouched(skip=None):
            for k in range(2):
                if k != skip:
                    S.prove(f"creg-untouched[{k}]", O.eq_bits(creg[k], spec["creg"][k]))

        if self.op in ONE_Q or self.op in TWO_Q:
            name = ONE_Q.get(self.op) or TWO_Q[self.op]
            for i, (o, nw) in enumerate(zip(old_d + old_s, new_d + new_s)):
                want = o if name == "I" else O.apply_gate(o, (name, *idx))
                S.prove(f"row-map[{i}]", O.row_eq(nw, want))
            others_untouched()
            return
        if not prove_inv(S, T2):
            return
        if self.op == "MeasurementZ":
            outcome = creg[c]
            measure_rows_obligations(S, n, old_s, new_d, new_s, idx[0], outcome, self.det)
            others_untouched(c)
            return
        ctrl, tgt = idx
        gate = {"ClassicalCNOT": "X", "ClassicalCZ": "Z", "MeasurementCNOTandReset": "X"}[self.op]
        if self.op in ("ClassicalCNOT", "ClassicalCZ"):
            outcome = creg[c]
            # undo the conditional gate with the oracle, then the state must be the post-measurement state
            und_d = [cond_apply1(r, gate, tgt, outcome) for r in new_d]
            und_s = [cond_apply1(r, gate, tgt, outcome) for r in new_s]
            measure_rows_obligations(S, n, old_s, und_d, und_s, ctrl, outcome, self.det)
            others_untouched(c)
            return
        # MeasurementCNOTandReset: measure control (outcome o), X^o on target, control reset to |0>
        S.prove("control-left-in-ket0", O.member_with_destabs(O.Row.single(n, ctrl, "Z"), new_s, new_d))
        zc = O.Row.single(n, ctrl, "Z")
        anti = [O.sp(g, zc) for g in old_s]
        random_case = b_or(*[O.eq_bits(a, 1) for a in anti])
        alts = []
        for o in (0, 1):
            conds = []
            if self.det in (0, 1):
                conds.append(b_implies(random_case, o == self.det))
            conds.append(b_implies(b_not(random_case), O.member_with_destabs(O.Row.single(n, ctrl, "Z", sign=o), old_s, old_d)))
            for coeffs, g in group_elements(old_s):
                commutes = O.eq_bits(O.sp(g, zc), 0)
                img = g
                if o:
                    img = O.apply1(O.apply1(g, "X", tgt), "X", ctrl)
                conds.append(b_implies(commutes, O.member_with_destabs(img, new_s, new_d)))
            conds.append(O.eq_bits(creg[c], o))
            alts.append(b_and(*conds))
        S.prove("exists-outcome: post = reset_c . X_t^o . measure_c(o) pre, and creg == o", b_or(*alts))
        others_untouched(c)


class DmCompileOne(Harness):
    """DensityMatrixCompiler.compile_one_gate on a symbolic Hermitian rho against oracle O8"""

    weight = 15
    TOL = 1e-9

    def install(self):
        from symnp import install as sinstall
        sinstall.install(np_modules=[], int_modules=[], summaries=False)
        sinstall.install_dm_state()

    def declare(self, S):
        from vf.common import declare_rho
        n = self.n_p + self.n_e
        spec = declare_rho(S, n)
        spec["creg"] = S.bits("creg", 2)
        return spec

    _build_op = StabCompileOne._build_op

    def body(self, S, spec):
        from graphiq.backends.density_matrix.compiler import DensityMatrixCompiler
        from graphiq.backends.compiler_base import CompilerBase
        from vf.common import dm_state, rho_cells
        from oracle import dm as D

        n = self.n_p + self.n_e
        comp = DensityMatrixCompiler()
        comp.measurement_determinism = self.det
        qs = dm_state(spec["rho"].copy(), n)
        creg = spec["creg"].copy()
        op = self._build_op()
        q_index = CompilerBase.reg_to_index_func(self.n_p)
        comp.compile_one_gate(qs, op, n, q_index, creg)
        got = rho_cells(qs.rep_data.data)
        rho = rho_cells(spec["rho"])
        idx = [index_of(tuple(r), self.n_p) for r in self.regs]
        c = self.c

        def others_untouched(skip=None):
            for k in range(2):
                if k != skip:
                    S.prove(f"creg-untouched[{k}]", O.eq_bits(creg[k], spec["creg"][k]))

        def same(want, tag="post-state"):
            for k, cl in enumerate(D.matrix_close(got, want, self.TOL)):
                S.prove(f"{tag}[{k}]", cl)

        if self.op in ONE_Q:
            same(D.apply_1q(rho, ONE_Q[self.op], idx[0], n))
            others_untouched()
            return
        if self.op in TWO_Q:
            same(D.apply_controlled(rho, "X" if self.op == "CNOT" else "Z", idx[0], idx[1], n))
            others_untouched()
            return
        q = idx[0]
        o = int(creg[c])
        S.prove("outcome-is-bit", o in (0, 1))
        proj, tr_o = D.project(rho, q, o, n)
        _, tr_1 = D.project(rho, q, 1, n)
        _, tr_0 = D.project(rho, q, 0, n)
        S.prove("recorded-outcome-has-positive-probability", tr_o > 0)
        # forced outcome: taken whenever its probability is (numerically) positive, never when it is exactly 0;
        # probabilities below 1e-6 may be treated as 0 by the implementation (float tolerance)
        if self.det == 1:
            S.prove("determinism-1-rule: outcome 1 only if p(1) > 0, always if p(1) > 1e-6",
                    (tr_1 > 0) if o == 1 else b_not(tr_1 > 1e-6))
        elif self.det == 0:
            S.prove("determinism-0-rule: outcome 0 only if p(0) > 0, always if p(0) > 1e-6",
                    (tr_0 > 0) if o == 0 else b_not(tr_0 > 1e-6))
        post = D.divide(proj, tr_o)
        if self.op == "MeasurementZ":
            same(post)
        elif self.op in ("ClassicalCNOT", "ClassicalCZ"):
            g = "X" if self.op == "ClassicalCNOT" else "Z"
            same(D.apply_1q(post, g, idx[1], n) if o == 1 else post)
        else:  # MeasurementCNOTandReset
            want = D.apply_1q(post, "X", idx[1], n) if o == 1 else post
            same(D.reset(want, q, n), tag="post-state(control reset to |0>)")
        others_untouched(c)


def build_circuit(name):
    """fixed family of circuits for the compile()-loop glue check"""
    import graphiq.benchmarks.circuits as bc
    import graphiq.circuit.ops as ops
    from graphiq.circuit.circuit_dag import CircuitDAG

    if hasattr(bc, name):
        return getattr(bc, name)()[0]
    if name == "mix1":
        c = CircuitDAG(n_emitter=1, n_photon=2, n_classical=2)
        c.add(ops.Hadamard(register=0, reg_type="e"))
        c.add(ops.CNOT(control=0, control_type="e", target=0, target_type="p"))
        c.add(ops.OneQubitGateWrapper([ops.Phase, ops.Hadamard], register=0, reg_type="p"))
        c.add(ops.CNOT(control=0, control_type="e", target=1, target_type="p"))
        c.add(ops.Hadamard(register=0, reg_type="e"))
        c.add(ops.ClassicalCZ(control=0, control_type="e", target=1, target_type="p", c_register=0))
        c.add(ops.MeasurementZ(register=0, reg_type="p", c_register=1))
        return c
    if name == "mix2":
        c = CircuitDAG(n_emitter=2, n_photon=1, n_classical=2)
        c.add(ops.Hadamard(register=0, reg_type="e"))
        c.add(ops.Hadamard(register=1, reg_type="e"))
        c.add(ops.CZ(control=0, control_type="e", target=1, target_type="e"))
        c.add(ops.CNOT(control=1, control_type="e", target=0, target_type="p"))
        c.add(ops.OneQubitGateWrapper([ops.Hadamard, ops.Phase, ops.SigmaY], register=1, reg_type="e"))
        c.add(ops.ClassicalCNOT(control=1, control_type="e", target=0, target_type="p", c_register=1))
        c.add(ops.PhaseDagger(register=0, reg_type="e"))
        c.add(ops.MeasurementCNOTandReset(control=0, control_type="e", target=0, target_type="p", c_register=0))
        c.add(ops.SigmaX(register=1, reg_type="e"))
        c.add(ops.MeasurementZ(register=1, reg_type="e", c_register=1))
        return c
    if name in ("float1", "float2", "float3"):
        # exact probabilities 0 / 1 that carry float rounding noise after H.H or H.P.P.H
        c = CircuitDAG(n_emitter=1, n_photon=1, n_classical=2)
        seq = {"float1": ["H", "H"], "float2": ["H", "P", "P", "H"], "float3": ["H", "H", "H", "P", "P", "H", "H", "H"]}[name]
        for g in seq:
            c.add({"H": ops.Hadamard, "P": ops.Phase}[g](register=0, reg_type="e"))
        c.add(ops.ClassicalCNOT(control=0, control_type="e", target=0, target_type="p", c_register=0))
        c.add(ops.MeasurementZ(register=0, reg_type="p", c_register=1))
        return c
    if name == "mix3":
        c = CircuitDAG(n_emitter=1, n_photon=1, n_classical=1)
        c.add(ops.SigmaX(register=0, reg_type="e"))
        c.add(ops.MeasurementCNOTandReset(control=0, control_type="e", target=0, target_type="p", c_register=0))
        c.add(ops.Identity(register=0, reg_type="p"))
        c.add(ops.SigmaZ(register=0, reg_type="p"))
        return c
    raise ValueError(name)


class CompileLoop(Harness):
    """CompilerBase.compile (noise off) on a fixed circuit with symbolic outcomes: the final state and the classical
    record equal the fold of the reference simulator over the circuit's operations, taken in the harness' own
    topological order with the outcomes graphiq actually drew (matched per operation object)."""

    weight = 40

    def declare(self, S):
        return {}

    def body(self, S, spec):
        from graphiq.backends.stabilizer.compiler import StabilizerCompiler
        from oracle import chp

        circuit = build_circuit(self.circuit)
        n_p, n_e = circuit.n_photons, circuit.n_emitters
        comp = StabilizerCompiler()
        comp.measurement_determinism = self.det
        drawn = {}
        orig = comp.compile_one_gate
        sess = S

        def spy(state, op, n_quantum, q_index, cregs):
            before = sess.n_outcomes if sess.symbolic else sess.rng_pos
            r = orig(state, op, n_quantum, q_index, cregs)
            after = sess.n_outcomes if sess.symbolic else sess.rng_pos
            if hasattr(op, "c_register") and type(op).__name__ not in ("Input", "Output"):
                rec = cregs[op.c_register]
                if isinstance(rec, (float, np.floating)):
                    rec = int(rec)  # concrete run: the classical register array is a float array
                drawn[(type(op).__name__, getattr(op, "control", getattr(op, "register", None)), op.c_register, len([k for k in drawn if k[0] == type(op).__name__]))] = (after - before, rec)
            return r

        comp.compile_one_gate = spy
        state = comp.compile(circuit)
        T = state.rep_data.data
        ops_list = chp.expand_circuit_ops(circuit)
        meas = [v for k, v in drawn.items()]
        pos = [0]

        def next_outcome():
            # the reference takes the outcome the real run recorded for the same measurement (same order along each
            # classical/quantum wire); only called by the reference when ITS state says the outcome is random
            k = pos[0] - 1
            return meas[k][1]

        sim = chp.RefSim(n_p + n_e)
        record = {}

        def idx(reg):
            t, i = reg
            return i if t == "p" else n_p + i

        mcount = 0
        for op in ops_list:
            name = op[0]
            if name in chp.ONE_Q:
                sim.gate(chp.ONE_Q[name], idx(op[1]))
            elif name in ("CNOT", "CZ"):
                sim.gate(name, idx(op[1]), idx(op[2]))
            else:
                ndraw, recorded = meas[mcount]
                mcount += 1
                pos[0] = mcount
                ctrl = idx(op[1])
                o, was_random = sim.measure_z(ctrl, next_outcome)
                S.prove(f"draws-only-when-random[{mcount}]", (ndraw >= 1) == was_random if self.det == "probabilistic" else ndraw == 0)
                S.prove(f"recorded-outcome-equals-reference-outcome[{mcount}]", O.eq_bits(recorded, o))
                if self.det in (0, 1) and was_random:
                    S.prove(f"forced-outcome[{mcount}]", O.eq_bits(recorded, self.det))
                if name in ("ClassicalCNOT", "ClassicalCZ"):
                    sim.cond_gate("X" if name == "ClassicalCNOT" else "Z", idx(op[2]), o)
                elif name == "MeasurementCNOTandReset":
                    sim.cond_gate("X", idx(op[2]), o)
                    sim.cond_gate("X", ctrl, o)
                record[op[-1]] = o
        S.prove("all-measurements-matched", mcount == len(meas))
        if prove_inv(S, T):
            d, st = post_rows(T)
            for i, g in enumerate(sim.stab):
                S.prove(f"final-state-generator[{i}]", O.member_with_destabs(g, st, d))


class DmCompileLoop(Harness):
    """DensityMatrixCompiler.compile on a fixed circuit from |0..0>: numerically concrete per path (the outcome
    vector is forked, infeasible outcomes pruned by the contract p[outcome] > 0); final rho equals the dense matrix
    of the reference simulator's state for the recorded outcomes.  Auxiliary/enumerative in the outcomes; the
    deciding step for the density-matrix leg is DmCompileOne."""

    weight = 40

    def install(self):
        from symnp import install as sinstall
        sinstall.install(np_modules=[], int_modules=[], summaries=False)
        sinstall.install_dm_state()

    def declare(self, S):
        return {}

    def body(self, S, spec):
        import numpy as np
        from graphiq.backends.density_matrix.compiler import DensityMatrixCompiler
        from oracle import chp

        circuit = build_circuit(self.circuit)
        n_p, n_e = circuit.n_photons, circuit.n_emitters
        n = n_p + n_e
        comp = DensityMatrixCompiler()
        comp.measurement_determinism = self.det
        recorded = []
        orig = comp.compile_one_gate

        def spy(state, op, n_quantum, q_index, cregs):
            r = orig(state, op, n_quantum, q_index, cregs)
            if hasattr(op, "c_register") and type(op).__name__ not in ("Input", "Output"):
                recorded.append(int(cregs[op.c_register]))
            return r

        comp.compile_one_gate = spy
        state = comp.compile(circuit)
        rho = np.asarray(state.rep_data.data, dtype=complex)
        ops_list = chp.expand_circuit_ops(circuit)
        it = iter(recorded)
        cur = [0]

        def fresh():
            return cur[0]

        sim = chp.RefSim(n)

        def idx(reg):
            t, i = reg
            return i if t == "p" else n_p + i

        k = 0
        for op in ops_list:
            name = op[0]
            if name in chp.ONE_Q:
                sim.gate(chp.ONE_Q[name], idx(op[1]))
            elif name in ("CNOT", "CZ"):
                sim.gate(name, idx(op[1]), idx(op[2]))
            else:
                cur[0] = recorded[k]
                k += 1
                o, was_random = sim.measure_z(idx(op[1]), fresh)
                S.prove(f"recorded-outcome-possible[{k}]", int(o) == cur[0])
                if self.det in (0, 1) and was_random:
                    S.prove(f"forced-outcome[{k}]", cur[0] == self.det)
                if name in ("ClassicalCNOT", "ClassicalCZ"):
                    sim.cond_gate("X" if name == "ClassicalCNOT" else "Z", idx(op[2]), o)
                elif name == "MeasurementCNOTandReset":
                    sim.cond_gate("X", idx(op[2]), o)
                    sim.cond_gate("X", idx(op[1]), o)
        ref = np.eye(2 ** n, dtype=complex)
        for g in sim.stab:
            m = O.pauli_matrix(g.x, g.z) * (-1 if int(g.hi) else 1)
            ref = ref @ (np.eye(2 ** n) + m) / 2
        S.prove("final-density-matrix-equals-reference-state", bool(np.allclose(rho, ref, atol=1e-9)))
        S.prove("trace-one", bool(abs(np.trace(rho) - 1) < 1e-9))


class OracleTie(Harness):
    """the two oracles describe the same gates: sqrt(scale2)*M of oracle.dm equals the textbook matrix oracle.pauli's
    conjugation tables were derived from; graphiq's own 2x2 matrices equal them as well (concrete numerics)"""

    def declare(self, S):
        return {}

    def body(self, S, spec):
        import numpy as np
        from oracle import dm as D
        import graphiq.backends.density_matrix.functions as dmf

        for name, (s2, M) in D.GATES.items():
            m = np.sqrt(float(s2)) * np.array(M, dtype=complex)
            S.prove(f"oracles-agree[{name}]", bool(np.allclose(m, O.ONE_QUBIT[name], atol=1e-12)))
        lib = {"I": dmf.identity(), "H": dmf.hadamard(), "P": dmf.phase(), "P_dag": dmf.phase_dag(), "X": dmf.sigmax(), "Y": dmf.sigmay(), "Z": dmf.sigmaz()}
        for name, m in lib.items():
            S.prove(f"graphiq-matrix-is-textbook[{name}]", bool(np.allclose(np.asarray(m, dtype=complex), O.ONE_QUBIT[name], atol=1e-12)))
        for n in (2, 3):
            for c in range(n):
                for t in range(n):
                    if c == t:
                        continue
                    for nm, u2 in (("X", O.CNOT), ("Z", O.CZ)):
                        g = dmf.get_two_qubit_controlled_gate(n, c, t, lib[nm])
                        # textbook: |0><0|_c (x) I + |1><1|_c (x) U_t
                        ref = np.zeros((2 ** n, 2 ** n), dtype=complex)
                        for i in range(2 ** n):
                            for j in range(2 ** n):
                                bi = [(i >> (n - 1 - q)) & 1 for q in range(n)]
                                bj = [(j >> (n - 1 - q)) & 1 for q in range(n)]
                                if any(bi[q] != bj[q] for q in range(n) if q != t):
                                    continue
                                u = O.ONE_QUBIT[nm] if bi[c] else O.I2
                                ref[i, j] = u[bi[t], bj[t]]
                        S.prove(f"controlled-gate-matrix[{nm},{n},{c},{t}]", bool(np.allclose(g, ref, atol=1e-12)))
            for q in range(n):
                pr = dmf.projectors_zbasis(n, q)
                for o in (0, 1):
                    ref = np.diag([1.0 if ((i >> (n - 1 - q)) & 1) == o else 0.0 for i in range(2 ** n)])
                    S.prove(f"projector[{n},{q},{o}]", bool(np.allclose(pr[o], ref)))


class RegToIndex(Harness):
    """CompilerBase.reg_to_index_func: photons map to 0..n_p-1, emitters to n_p.., injective (symbolic ints)"""

    def declare(self, S):
        spec = {"n_p": S.int_("n_p", 0, 64), "r1": S.int_("r1", 0, 64), "r2": S.int_("r2", 0, 64)}
        return spec

    def body(self, S, spec):
        from graphiq.backends.compiler_base import CompilerBase

        n_p, r1, r2 = spec["n_p"], spec["r1"], spec["r2"]
        f = CompilerBase.reg_to_index_func(n_p)
        S.prove("photon-index", f(r1, "p") == r1)
        S.prove("emitter-index", f(r1, "e") == r1 + n_p)
        S.prove("photon-before-emitter", b_implies(r1 < n_p, f(r1, "p") < f(r2, "e")))
        S.prove("injective-e", b_implies(f(r1, "e") == f(r2, "e"), r1 == r2))
        S.prove("disjoint", b_implies(r1 < n_p, b_not(f(r1, "p") == f(r2, "e"))))


def plan(tier):
    jobs = []
    q = tier == "quick"
    sizes = [(1, 0), (0, 1), (1, 1), (2, 0), (0, 2)] if q else [(1, 0), (0, 1), (1, 1), (2, 0), (0, 2), (2, 1), (1, 2), (0, 3), (3, 0)]
    for n_p, n_e in sizes:
        regs = placements(n_p, n_e)
        for op in ONE_Q:
            for r in regs:
                jobs.append((StabCompileOne(op=op, n_p=n_p, n_e=n_e, regs=[list(r)], det="probabilistic", c=0), {}))
        for op in TWO_Q:
            for a, b in itertools.permutations(regs, 2):
                jobs.append((StabCompileOne(op=op, n_p=n_p, n_e=n_e, regs=[list(a), list(b)], det="probabilistic", c=0), {}))
        dets = (0, 1, "probabilistic")
        for r in regs:
            for det in dets:
                jobs.append((StabCompileOne(op="MeasurementZ", n_p=n_p, n_e=n_e, regs=[list(r)], det=det, c=1), {}))
        for op in ("ClassicalCNOT", "ClassicalCZ", "MeasurementCNOTandReset"):
            for a, b in itertools.permutations(regs, 2):
                for det in dets:
                    if n_p + n_e == 3 and det == 0 and op != "MeasurementCNOTandReset":
                        continue
                    jobs.append((StabCompileOne(op=op, n_p=n_p, n_e=n_e, regs=[list(a), list(b)], det=det, c=1), {}))
    jobs.append((RegToIndex(), {}))
    jobs.append((OracleTie(), {}))
    from props.c05 import RowSum
    for n in ([4, 5] if q else [4, 5, 6, 8]):
        jobs.append((RowSum(n=n, commuting=True), {}))
    if q:
        # budgeted look at three registers (complete in the thorough tier): the placements where photon and emitter
        # indices differ most
        for h in (StabCompileOne(op="MeasurementCNOTandReset", n_p=2, n_e=1, regs=[["e", 0], ["p", 1]], det="probabilistic", c=1),
                  StabCompileOne(op="ClassicalCZ", n_p=1, n_e=2, regs=[["e", 1], ["p", 0]], det=1, c=0)):
            h.parallel = True
            h.partial_ok = True
            jobs.append((h, {"time_budget": 30, "chunk_paths": 4, "chunk_s": 8.0}))
    circuits = ["ghz3_state_circuit", "linear_cluster_3qubit_circuit", "mix1", "mix2", "mix3", "float1", "float2", "float3"] + ([] if q else ["ghz4_state_circuit", "linear_cluster_4qubit_circuit"])
    for cname in circuits:
        for det in (0, 1, "probabilistic"):
            jobs.append((CompileLoop(circuit=cname, det=det), {}))
            jobs.append((DmCompileLoop(circuit=cname, det=det), {}))
    # compile(circuit, initial_state=...) from a SYMBOLIC initial state, noise off (harness shared with C06)
    from props.c06 import CompileNoise
    for backend in ("s", "dm"):
        for gate in ("H", "CNOT"):
            jobs.append((CompileNoise(backend=backend, gate=gate, pauli="X", after=1, noise="none", switch=0), {}))
    # -- density-matrix leg -------------------------------------------------------------------------------
    dm_sizes = [(1, 0), (0, 1), (1, 1), (2, 0)] if q else [(1, 0), (0, 1), (1, 1), (2, 0), (0, 2), (2, 1), (1, 2)]
    for n_p, n_e in dm_sizes:
        regs = placements(n_p, n_e)
        for op in ONE_Q:
            for r in regs:
                jobs.append((DmCompileOne(op=op, n_p=n_p, n_e=n_e, regs=[list(r)], det="probabilistic", c=0), {}))
        for op in TWO_Q:
            for a, b in itertools.permutations(regs, 2):
                jobs.append((DmCompileOne(op=op, n_p=n_p, n_e=n_e, regs=[list(a), list(b)], det="probabilistic", c=0), {}))
        big = n_p + n_e >= 3  # 8x8 symbolic rho divided by a symbolic norm: a few QF_NRA obligations per job may stay undecided
        for r in regs:
            for det in (0, 1, "probabilistic"):
                h = DmCompileOne(op="MeasurementZ", n_p=n_p, n_e=n_e, regs=[list(r)], det=det, c=1)
                h.partial_ok = big
                jobs.append((h, {}))
        for op in ("ClassicalCNOT", "ClassicalCZ", "MeasurementCNOTandReset"):
            for a, b in itertools.permutations(regs, 2):
                for det in (0, 1, "probabilistic"):
                    h = DmCompileOne(op=op, n_p=n_p, n_e=n_e, regs=[list(a), list(b)], det=det, c=1)
                    h.partial_ok = big
                    jobs.append((h, {}))
    return jobs
