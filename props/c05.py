"""
C05 -- stabilizer state comparison and fidelity are exact.
"""
from __future__ import annotations

import itertools

import numpy as np

from oracle import pauli as O
from symnp.sym import b_and, b_or, b_not, b_implies, b_iff, SymInt
from vf.common import (Harness, cells, declare_stabilizer, assume_valid_stabilizer, fresh_stabilizer, stab_rows,
                       declare_clifford, assume_inv, fresh_clifford, pre_rows)
from vf.semantics import group_elements

EXPLANATION = (
    "Bounded symbolic execution of the real canonical_form, Stabilizer.__eq__, inner_product/fidelity, row_sum/"
    "tab_row_sum and Infidelity.evaluate (stabilizer branch). canonical_form: on an arbitrary valid generating set the "
    "output generates the same group with the same signs (both inclusions, z3); gauge independence: "
    "canonical_form(T) == canonical_form(E.T) for every ELEMENTARY change of generating set E (row swap; g_j <- g_i g_j "
    "with the oracle's sign) -- elementary operations generate GL(n,2), so invariance under every generating set "
    "follows by induction on word length; Stabilizer.__eq__ is True on (T, E.T) and False on (T, T with one sign "
    "flipped). fidelity: both tableaux symbolic, returned float vs the overlap oracle |<a|b>|^2 = 0 if some P in S_a "
    "has -P in S_b else |S_a n S_b| / 2^n (group elements expanded), symmetry by running both orders.")
CROSSHAIR = ["xh/g_function_contract.py"]
ASSUMPTIONS = ["A1 z3 sound", "A2 numpy object-array semantics",
               "fidelity returns a float: 'equals' means |value - oracle| <= 1e-9 (2**(-k/2) squared is 0.5000000000000001 for k=1)",
               "destabilizer halves of fidelity's inputs are left unconstrained (the function never reads them)"]
BOUNDS = {"quick": {"canonical_form": "n<=2 (+budgeted n=3)", "gauge": "n<=2", "fidelity": "two symbolic tableaux n<=1 (+budgeted n=2); fidelity(T,T)=1 / sign-flip=0 for n<=2 (+budgeted n=3, n=4); |0..0> against a symbolic product state n=5 (+budgeted n=6); row_sum n<=5"},
          "thorough": {"canonical_form": "n<=3", "gauge": "n<=3", "fidelity": "two symbolic tableaux n<=2; fidelity(T,T) n<=3 complete, n=4 under a 1 h budget; product-state fidelity n=5 complete, n=6, 7 under a 30 min budget each; row_sum n<=6 and 8"}}
OUTSIDE = "n>=4 (n>=3 for whole-function fidelity); the density-matrix branch of the metric (C17)"


class CanonicalForm(Harness):
    weight = 40

    def input_space(self):
        return 2 * self.n * self.n + self.n

    def declare(self, S):
        spec = declare_stabilizer(S, self.n)
        assume_valid_stabilizer(S, spec)
        return spec

    def body(self, S, spec):
        import graphiq.backends.stabilizer.functions.stabilizer as sfs

        n = self.n
        inp = stab_rows(spec)
        out = stab_rows(sfs.canonical_form(fresh_stabilizer(spec)))
        for i, r in enumerate(out):
            S.prove(f"output-row-in-input-group-with-sign[{i}]", O.member_by_enumeration(r, inp))
        for i, r in enumerate(inp):
            S.prove(f"input-row-in-output-group-with-sign[{i}]", O.member_by_enumeration(r, out))


def elementary(S, spec, kind, i, j):
    """E.T for an elementary change of generating set; signs by the oracle product"""
    n = spec["n"]
    rows = stab_rows(spec)
    if kind == "swap":
        rows[i], rows[j] = rows[j], rows[i]
    else:  # g_j <- g_i * g_j
        rows[j] = O.mul(rows[i], rows[j])
    table = spec["table"].copy()
    phase = spec["phase"].copy()
    for r in range(n):
        for c in range(n):
            table[r, c] = rows[r].x[c]
            table[r, n + c] = rows[r].z[c]
        phase[r] = rows[r].hi
    return {"n": n, "table": table, "phase": phase}, rows


class Gauge(Harness):
    """canonical_form and Stabilizer.__eq__ depend only on the state"""

    weight = 60

    def declare(self, S):
        spec = declare_stabilizer(S, self.n)
        assume_valid_stabilizer(S, spec)
        return spec

    def body(self, S, spec):
        import graphiq.backends.stabilizer.functions.stabilizer as sfs
        from graphiq.backends.stabilizer.state import Stabilizer
        from graphiq.backends.stabilizer.clifford_tableau import CliffordTableau

        n = self.n
        spec2, rows2 = elementary(S, spec, self.kind, self.i, self.j)
        if self.kind == "mul":
            S.prove("oracle-product-hermitian", O.eq_bits(rows2[self.j].lo, 0))
        c1 = sfs.canonical_form(fresh_stabilizer(spec))
        c2 = sfs.canonical_form(fresh_stabilizer(spec2))
        S.prove("canonical-form-table-equal", np.array_equal(c1.table, c2.table))
        S.prove("canonical-form-signs-equal", np.array_equal(c1.phase, c2.phase))
        S.prove("tableau-eq-true", c1 == c2)
        # a state differing only in one sign must be told apart
        for k in range(n):
            spec3 = {"n": n, "table": spec["table"].copy(), "phase": spec["phase"].copy()}
            spec3["phase"][k] = 1 ^ spec3["phase"][k]
            c3 = sfs.canonical_form(fresh_stabilizer(spec3))
            S.prove(f"sign-flip-distinguished[{k}]", b_not(c1 == c3))


class StabilizerEq(Harness):
    """Stabilizer.__eq__ (through Clifford tableaux): same state in another generating set -> True; one sign
    flipped -> False.  Destabilizers: the Inv tableau's own."""

    weight = 60

    def declare(self, S):
        spec = declare_clifford(S, self.n)
        assume_inv(S, spec)
        return spec

    def body(self, S, spec):
        from graphiq.backends.stabilizer.state import Stabilizer

        n = self.n
        A = Stabilizer(fresh_clifford(spec))
        spec2 = {"n": n, "table": spec["table"].copy(), "phase": spec["phase"].copy(), "iphase": spec["iphase"]}
        # other generating set: S_j <- S_i S_j (i != j), signs by the oracle
        _, st = pre_rows(spec)
        if n >= 2:
            i, j = self.i, self.j
            prod = O.mul(st[i], st[j])
            for c in range(n):
                spec2["table"][n + j, c] = prod.x[c]
                spec2["table"][n + j, n + c] = prod.z[c]
            spec2["phase"][n + j] = prod.hi
        B = Stabilizer(fresh_clifford(spec2))
        S.prove("eq-same-state", A == B)
        spec3 = {"n": n, "table": spec["table"].copy(), "phase": spec["phase"].copy(), "iphase": spec["iphase"]}
        spec3["phase"][n + self.i] = 1 ^ spec3["phase"][n + self.i]
        Cc = Stabilizer(fresh_clifford(spec3))
        A2 = Stabilizer(fresh_clifford(spec))
        S.prove("eq-sign-flipped-false", b_not(A2 == Cc))


def overlap_oracle(S, rows_a, rows_b, n):
    """returns (any_minus: bool-like, count_plus: int-like) over the 2^n elements of S_a"""
    any_minus = []
    count = 1  # identity
    for coeffs, g in group_elements(rows_a):
        neg = g.copy()
        neg.hi = 1 ^ neg.hi
        plus = O.member_by_enumeration(g, rows_b)
        minus = O.member_by_enumeration(neg, rows_b)
        any_minus.append(minus)
        count = count + (int(plus) if isinstance(plus, bool) else plus.as_int())
    return b_or(*any_minus), count


class Fidelity(Harness):
    """metric.fidelity(T1, T2) with both Clifford tableaux symbolic (stabilizer halves valid, destabilizers free)"""

    weight = 100

    def input_space(self):
        return 2 * (4 * self.n * self.n + 2 * self.n)

    def declare(self, S):
        a = declare_clifford(S, self.n, tag="A", destab_iphase=False)
        b = declare_clifford(S, self.n, tag="B", destab_iphase=False)
        n = self.n
        for sp in (a, b):
            rows = O.rows_of(cells(sp["table"])[n:], cells(sp["phase"])[n:], n)
            S.assume(O.commute_all(rows))
            S.assume(O.independent(rows))
        return {"a": a, "b": b}

    def body(self, S, spec):
        import graphiq.backends.stabilizer.functions.metric as metric

        n = self.n
        A, B = fresh_clifford(spec["a"]), fresh_clifford(spec["b"])
        f_ab = metric.fidelity(A, B)
        rows_a = O.rows_of(cells(spec["a"]["table"])[n:], cells(spec["a"]["phase"])[n:], n)
        rows_b = O.rows_of(cells(spec["b"]["table"])[n:], cells(spec["b"]["phase"])[n:], n)
        f = float(f_ab)
        any_minus, count = overlap_oracle(S, rows_a, rows_b, n)
        S.info.setdefault("values", f"{f:.6f}")
        if abs(f) <= 1e-9:
            S.prove("fidelity-0-iff-orthogonal", any_minus)
        else:
            k = round(f * (2 ** n))
            S.prove("fidelity-is-dyadic", abs(f * (2 ** n) - k) <= 1e-9 and k >= 1)
            S.prove("fidelity-positive-implies-not-orthogonal", b_not(any_minus))
            S.prove("fidelity-equals-|Sa n Sb|/2^n", count == k)
        if self.symmetry:
            A, B = fresh_clifford(spec["a"]), fresh_clifford(spec["b"])
            f_ba = float(metric.fidelity(B, A))
            S.prove("symmetric", abs(f_ba - f) <= 1e-9)


class FidelitySelf(Harness):
    """fidelity(T, T') == 1 where T' is the same state (same tableau here) -- 'equals 1 exactly when the two states
    are the same', at the size where the whole two-tableau harness is out of reach (n = 3)"""

    weight = 100

    def input_space(self):
        return 2 * self.n * self.n + self.n

    def declare(self, S):
        a = declare_clifford(S, self.n, tag="A", destab_iphase=False)
        n = self.n
        rows = O.rows_of(cells(a["table"])[n:], cells(a["phase"])[n:], n)
        S.assume(O.commute_all(rows))
        S.assume(O.independent(rows))
        return a

    def body(self, S, spec):
        import graphiq.backends.stabilizer.functions.metric as metric

        f = float(metric.fidelity(fresh_clifford(spec), fresh_clifford(spec)))
        S.prove("fidelity-with-itself-is-1", abs(f - 1.0) <= 1e-9)
        # and with one sign flipped the states are orthogonal
        other = {"n": spec["n"], "table": spec["table"].copy(), "phase": spec["phase"].copy(), "iphase": None}
        other["phase"][self.n] = 1 ^ other["phase"][self.n]
        f2 = float(metric.fidelity(fresh_clifford(spec), fresh_clifford(other)))
        S.prove("fidelity-with-sign-flipped-state-is-0", abs(f2) <= 1e-9)


class FidelitySelfPinned(FidelitySelf):
    """fidelity(T, T) on ONE Pauli pattern with symbolic signs -- the consequence of known finding F16 (inverse_circuit)
    for this property"""

    weight = 5

    def declare(self, S):
        from vf.common import declare_pinned_stabilizer
        n = len(self.labels)
        a = declare_clifford(S, n, tag="A", destab_iphase=False)
        lab = {"I": (0, 0), "X": (1, 0), "Y": (1, 1), "Z": (0, 1)}
        for i, row in enumerate(self.labels):
            for j, ch in enumerate(row):
                S.assume(O.eq_bits(a["table"][n + i, j], lab[ch][0]))
                S.assume(O.eq_bits(a["table"][n + i, n + j], lab[ch][1]))
        return a


class FidelityProduct(Harness):
    """fidelity(|0...0>, product state) for a SYMBOLIC single-qubit-product stabilizer state (each qubit stabilized by
    +-X, +-Y or +-Z) at sizes where general tableaux are out of reach: exactly 0 if some qubit is in |1>, otherwise
    2^-(number of qubits not in a Z eigenstate) -- to 1e-12, so that no value is rounded"""

    weight = 60

    def input_space(self):
        return 3 * self.n

    def declare(self, S):
        n = self.n
        spec = {"n": n, "x": [S.bit(f"px{i}") for i in range(n)], "z": [S.bit(f"pz{i}") for i in range(n)],
                "r": [S.bit(f"pr{i}") for i in range(n)]}
        for i in range(n):
            S.assume(b_or(O.eq_bits(spec["x"][i], 1), O.eq_bits(spec["z"][i], 1)))
        return spec

    def body(self, S, spec):
        import graphiq.backends.stabilizer.functions.metric as metric
        from graphiq.backends.stabilizer.clifford_tableau import CliffordTableau
        from graphiq.backends.stabilizer.tableau import StabilizerTableau

        n = self.n
        if S.symbolic:
            from symnp.arr import sym_zeros
            table, phase = sym_zeros((n, 2 * n)), sym_zeros(n)
        else:
            table, phase = np.zeros((n, 2 * n), dtype=int), np.zeros(n, dtype=int)
        for i in range(n):
            table[i, i] = spec["x"][i]
            table[i, n + i] = spec["z"][i]
            phase[i] = spec["r"][i]
        B = CliffordTableau(StabilizerTableau(table, phase))
        A = CliffordTableau(n)
        for order, (t1, t2) in (("0,B", (A, B)), ("B,0", (B.copy(), CliffordTableau(n)))):
            f = float(metric.fidelity(t1, t2))
            in_one = b_or(*[b_and(O.eq_bits(spec["x"][i], 0), O.eq_bits(spec["r"][i], 1)) for i in range(n)])
            k = 0
            for i in range(n):
                k = k + spec["x"][i]
            if abs(f) <= 1e-15:
                S.prove(f"zero-iff-some-qubit-in-ket1[{order}]", in_one)
            else:
                S.prove(f"nonzero-implies-no-qubit-in-ket1[{order}]", b_not(in_one))
                S.prove(f"value-is-exactly-2^-k[{order}]", b_or(*[b_and(k == j, abs(f - 2.0 ** (-j)) <= 1e-12) for j in range(n + 1)]))


class RowSum(Harness):
    """linalg.row_sum / stabilizer.tab_row_sum sign rule vs the oracle product (Hermitian commuting rows)"""

    def declare(self, S):
        spec = declare_stabilizer(S, self.n)
        rows = stab_rows(spec)
        if self.commuting:
            S.assume(O.eq_bits(O.sp(rows[0], rows[1]), 0))
        return spec

    def body(self, S, spec):
        import graphiq.backends.stabilizer.functions.stabilizer as sfs

        rows = stab_rows(spec)
        T = sfs.tab_row_sum(fresh_stabilizer(spec), 0, 1)
        out = stab_rows(T)
        want = O.mul(rows[0], rows[1])
        if self.commuting:
            S.prove("product-hermitian", O.eq_bits(want.lo, 0))
            S.prove("row-sum-equals-oracle-product", O.row_eq(out[1], want))
        else:
            S.prove("row-sum-x-z", O.row_eq(out[1], want, signs=False))
        for k in range(self.n):
            if k != 1:
                S.prove(f"other-row-untouched[{k}]", O.row_eq(out[k], rows[k]))


class InfidelityMetric(Harness):
    """metrics.Infidelity.evaluate for a stabilizer target: 1 - fidelity, Stabilizer dispatch"""

    weight = 50

    def declare(self, S):
        a = declare_clifford(S, self.n, tag="A", destab_iphase=False)
        b = declare_clifford(S, self.n, tag="B", destab_iphase=False)
        n = self.n
        for sp in (a, b):
            rows = O.rows_of(cells(sp["table"])[n:], cells(sp["phase"])[n:], n)
            S.assume(O.commute_all(rows))
            S.assume(O.independent(rows))
        return {"a": a, "b": b}

    def body(self, S, spec):
        from graphiq.metrics import Infidelity
        from graphiq.state import QuantumState

        n = self.n
        tgt = QuantumState(fresh_clifford(spec["a"]), rep_type="s")
        st = QuantumState(fresh_clifford(spec["b"]), rep_type="s")
        m = Infidelity(tgt)
        val = float(m.evaluate(st, None))
        rows_a = O.rows_of(cells(spec["a"]["table"])[n:], cells(spec["a"]["phase"])[n:], n)
        rows_b = O.rows_of(cells(spec["b"]["table"])[n:], cells(spec["b"]["phase"])[n:], n)
        any_minus, count = overlap_oracle(S, rows_a, rows_b, n)
        f = 1 - val
        if abs(f) <= 1e-9:
            S.prove("infidelity-1-iff-orthogonal", any_minus)
        else:
            k = round(f * (2 ** n))
            S.prove("dyadic", abs(f * (2 ** n) - k) <= 1e-9 and k >= 1)
            S.prove("not-orthogonal", b_not(any_minus))
            S.prove("1-infidelity-equals-overlap", count == k)


class InfidelityMixture(Harness):
    """metrics.Infidelity.evaluate for a MixedStabilizer state: 1 - sum_i p_i F(target, T_i) with symbolic weights"""

    weight = 50

    def install(self):
        from symnp import install as sinstall
        sinstall.install()

    def declare(self, S):
        a = declare_clifford(S, 1, tag="A", destab_iphase=False)
        b = declare_clifford(S, 1, tag="B", destab_iphase=False)
        for sp in (a, b):
            rows = O.rows_of(cells(sp["table"])[1:], cells(sp["phase"])[1:], 1)
            S.assume(O.independent(rows))
        w = S.real("w")
        S.assume(w >= 0)
        S.assume(w <= 1)
        return {"a": a, "b": b, "w": w}

    def body(self, S, spec):
        from graphiq.metrics import Infidelity
        from graphiq.state import QuantumState
        from graphiq.backends.stabilizer.state import MixedStabilizer
        from oracle import dm as D

        w = spec["w"]
        tgt = QuantumState(fresh_clifford(spec["a"]), rep_type="s")
        flipped = {"n": 1, "table": spec["b"]["table"].copy(), "phase": spec["b"]["phase"].copy(), "iphase": None}
        flipped["phase"][1] = 1 ^ flipped["phase"][1]
        wf = w * 1.0 if not S.symbolic else w
        mix = MixedStabilizer([(wf, fresh_clifford(spec["b"])), (1.0 - wf, fresh_clifford(flipped))])
        st = QuantumState(1, rep_type="s", mixed=True)
        st.rep_data = mix
        val = Infidelity(tgt).evaluate(st, None)
        rows_a = O.rows_of(cells(spec["a"]["table"])[1:], cells(spec["a"]["phase"])[1:], 1)
        rows_b = O.rows_of(cells(spec["b"]["table"])[1:], cells(spec["b"]["phase"])[1:], 1)
        # one qubit: F(a, b) = 1 if same Pauli same sign, 0 if same Pauli opposite sign, 1/2 otherwise; the flipped
        # component has fidelity 1 - F
        same_pauli = b_and(O.eq_bits(rows_a[0].x[0], rows_b[0].x[0]), O.eq_bits(rows_a[0].z[0], rows_b[0].z[0]))
        same_sign = O.eq_bits(rows_a[0].hi, rows_b[0].hi)
        for cond, f1 in ((b_and(same_pauli, same_sign), 1.0), (b_and(same_pauli, b_not(same_sign)), 0.0), (b_not(same_pauli), 0.5)):
            want = 1 - (w * f1 + (1 - w) * (1 - f1))
            S.prove(f"infidelity-is-1-minus-weighted-fidelity[F={f1}]", b_implies(cond, D.close(val, want, 1e-9)))


def plan(tier):
    q = tier == "quick"
    jobs = []
    for n in ([1, 2] if q else [1, 2]):
        jobs.append((CanonicalForm(n=n), {}))
    for n in ([2] if q else [2, 3]):
        # n = 3: adjacent swaps and one transvection generate GL(3,2) (transvections are conjugate under permutations)
        for i, j in (itertools.combinations(range(n), 2) if n == 2 else [(0, 1), (1, 2)]):
            h = Gauge(n=n, kind="swap", i=i, j=j)
            h.parallel = n >= 3
            h.partial_ok = n >= 3
            jobs.append((h, {"time_budget": 2400}))
        for i, j in (itertools.permutations(range(n), 2) if n == 2 else [(0, 1)]):
            h = Gauge(n=n, kind="mul", i=i, j=j)
            h.parallel = n >= 3
            h.partial_ok = n >= 3
            jobs.append((h, {"time_budget": 2400}))
    jobs.append((StabilizerEq(n=1, i=0, j=0), {}))
    for i, j in itertools.permutations(range(2), 2):
        jobs.append((StabilizerEq(n=2, i=i, j=j), {}))
    jobs.append((Fidelity(n=1, symmetry=True), {}))
    jobs.append((InfidelityMetric(n=1), {}))
    jobs.append((InfidelityMixture(), {}))
    for n in ([2, 3, 4, 5] if q else [2, 3, 4, 5, 6, 8]):
        jobs.append((RowSum(n=n, commuting=True), {}))
        jobs.append((RowSum(n=n, commuting=False), {}))
    from props.c11 import F16_LABELS
    jobs.append((FidelitySelfPinned(n=5, labels=F16_LABELS), {}))
    for n in ([5, 6] if q else [5, 6, 7]):
        h = FidelityProduct(n=n)
        h.parallel = True
        h.partial_ok = n >= 6
        jobs.append((h, {"time_budget": 40 if q else 1800, "chunk_paths": 8, "chunk_s": 8.0}))
    jobs.append((FidelitySelf(n=1), {}))
    jobs.append((FidelitySelf(n=2), {}))
    if q:
        # budgeted look at the next size: every explored path is solver-decided, the exploration is not complete
        for h, budget in ((Fidelity(n=2, symmetry=False), 45), (CanonicalForm(n=3), 30), (FidelitySelf(n=3), 45), (FidelitySelf(n=4), 45)):
            h.parallel = True
            h.partial_ok = True
            jobs.append((h, {"time_budget": budget, "chunk_paths": 16, "chunk_s": 8.0}))
    if not q:
        for h, budget in ((CanonicalForm(n=3), 3600), (Fidelity(n=2, symmetry=False), 2 * 3600), (FidelitySelf(n=3), 2 * 3600), (FidelitySelf(n=4), 1800)):
            h.parallel = True
            h.partial_ok = True  # budgets are sized to complete on an idle 16-core machine; a truncated run is reported as PARTIAL
            jobs.append((h, {"time_budget": budget, "chunk_paths": 64}))
    return jobs
