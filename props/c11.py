"""
C11 -- the synthesised inverse circuit prepares exactly the given stabilizer state.
"""
from __future__ import annotations

import numpy as np

from oracle import pauli as O
from symnp.sym import b_and, b_or, b_not, b_implies
from vf.common import (Harness, cells, declare_stabilizer, assume_valid_stabilizer, fresh_stabilizer, stab_rows,
                       post_rows, prove_inv, declare_graph)

EXPLANATION = (
    "Bounded symbolic execution of the real inverse_circuit / clifford_from_stabilizer / CliffordTableau("
    "StabilizerTableau) / get_clifford_tableau_from_graph on an ARBITRARY valid stabilizer tableau (commuting, "
    "independent generators; all signs) resp. an arbitrary simple graph within the size bound. Per path z3 discharges: "
    "(a) the returned tableau is exactly x=0, z=I, signs 0; (b) the returned gate list, applied by the independent "
    "Pauli-algebra oracle to the INPUT generators, yields Z-type rows with + signs (so a compensating error in "
    "graphiq's own gate functions cannot hide a wrong circuit); (c) running the list backwards from |0..0> with the "
    "real run_circuit gives a valid (Inv) Clifford tableau whose stabilizer group contains every input generator "
    "with its sign. Because the elimination code forks on every table bit, the bit pattern is effectively enumerated "
    "by forking and the solver decides over the signs and whatever bits a path leaves free (evidence: paths vs "
    "input space).")
ASSUMPTIONS = ["A1 z3 sound", "A2 numpy object-array semantics", "A5 networkx conversions faithful (graph harness)",
               "input precondition: generators commute and are independent (2^n - 1 non-trivial products non-identity)"]
BOUNDS = {"quick": {"tableaux": "n<=2, all generating sets and signs; budgeted explorations of n=3 and n=4", "graphs": "n<=4"},
          "thorough": {"tableaux": "n<=3 complete (181k paths); n=4 under a 30 min budget (partial)", "graphs": "n<=5"}}
OUTSIDE = "n >= 4 general tableaux; n >= 6 graphs"


def check_inverse(S, in_rows, n, T_out, circ):
    # (a)
    S.prove("returned-tableau-is-ket0",
            b_and(np.array_equal(T_out.x_matrix, np.zeros((n, n), dtype=int)),
                  np.array_equal(T_out.z_matrix, np.eye(n, dtype=int)),
                  np.array_equal(T_out.phase, np.zeros(n, dtype=int))))
    # (b) oracle applies the gate list to the input generators
    for i, r in enumerate(in_rows):
        w = r
        for g in circ:
            if g[0] != "I":
                w = O.apply_gate(w, tuple(g))
        S.prove(f"oracle-image-is-plus-Z-type[{i}]",
                b_and(*[O.eq_bits(v, 0) for v in w.x], O.eq_bits(w.hi, 0), O.eq_bits(w.lo, 0)))
    S.info["max_circuit_len"] = S.info.get("max_circuit_len", 0)


class InverseCircuit(Harness):
    weight = 50

    def input_space(self):
        return 2 * self.n * self.n + self.n

    def declare(self, S):
        spec = declare_stabilizer(S, self.n)
        assume_valid_stabilizer(S, spec)
        return spec

    def body(self, S, spec):
        import graphiq.backends.stabilizer.functions.stabilizer as sfs
        import graphiq.backends.stabilizer.functions.rep_conversion as rc
        import graphiq.backends.stabilizer.functions.transformation as tr
        import graphiq.backends.stabilizer.functions.clifford as sfc
        from graphiq.backends.stabilizer.clifford_tableau import CliffordTableau

        n = self.n
        in_rows = stab_rows(spec)
        T_out, circ = sfs.inverse_circuit(fresh_stabilizer(spec))
        circ = [tuple(g) for g in circ]
        check_inverse(S, in_rows, n, T_out, circ)
        # (c) backwards from |0...0> with the real run_circuit
        C = tr.run_circuit(sfc.create_n_ket0_state(n), list(circ), reverse=True)
        if prove_inv(S, C, tag="inv-of-reverse-run"):
            d, s = post_rows(C)
            for i, r in enumerate(in_rows):
                S.prove(f"reverse-run-reproduces-generator[{i}]", O.member_with_destabs(r, s, d))
        if self.mode == "full":
            # (d) the two public constructors
            for label, mk in (("clifford_from_stabilizer", lambda: rc.clifford_from_stabilizer(fresh_stabilizer(spec))),
                              ("CliffordTableau(StabilizerTableau)", lambda: CliffordTableau(fresh_stabilizer(spec)))):
                C2 = mk()
                if prove_inv(S, C2, tag=f"inv:{label}"):
                    d, s = post_rows(C2)
                    for i, r in enumerate(in_rows):
                        S.prove(f"{label}-represents-generator[{i}]", O.member_with_destabs(r, s, d))


F16_LABELS = ["IZIZY", "XXYXI", "YYYIX", "ZIZII", "ZZIII"]


class InverseCircuitPinned(InverseCircuit):
    """inverse_circuit on ONE Pauli pattern (all 2^n sign patterns symbolic) -- pins the known finding F16"""

    weight = 5

    def input_space(self):
        return len(self.labels)

    def declare(self, S):
        from vf.common import declare_pinned_stabilizer
        spec = declare_pinned_stabilizer(S, self.labels)
        assume_valid_stabilizer(S, spec)
        return spec


class GraphToClifford(Harness):
    """get_stabilizer_tableau_from_graph / get_clifford_tableau_from_graph on a symbolic simple graph"""

    weight = 30

    def input_space(self):
        return self.n * (self.n - 1) // 2

    def install(self):
        super().install()
        from symnp import stubs
        stubs.install_nx()

    def declare(self, S):
        return declare_graph(S, self.n)

    def body(self, S, spec):
        import graphiq.backends.stabilizer.functions.rep_conversion as rc
        n = self.n
        if S.symbolic:
            from symnp.stubs import SymGraph
            g = SymGraph(spec["adj"])
        else:
            import networkx as nx
            g = nx.from_numpy_array(spec["adj"])
        st = rc.get_stabilizer_tableau_from_graph(g)
        adj = cells(spec["adj"])
        want = [O.Row([1 if j == i else 0 for j in range(n)], [adj[i][j] for j in range(n)]) for i in range(n)]
        for i, (r, w) in enumerate(zip(stab_rows(st), want)):
            S.prove(f"stabilizer-tableau-row-is-X_i-Z_N(i)[{i}]", O.row_eq(r, w))
        C = rc.get_clifford_tableau_from_graph(g)
        if prove_inv(S, C):
            d, s = post_rows(C)
            for i, w in enumerate(want):
                S.prove(f"clifford-tableau-represents-graph-generator[{i}]", O.member_with_destabs(w, s, d))


def plan(tier):
    q = tier == "quick"
    jobs = [(InverseCircuit(n=1, mode="full"), {}), (InverseCircuit(n=2, mode="full"), {})]
    for n in ([2, 3, 4] if q else [2, 3, 4, 5]):
        h = GraphToClifford(n=n)
        if n >= 5:
            h.parallel = True
        jobs.append((h, {}))
    jobs.append((InverseCircuitPinned(n=5, mode="core", labels=F16_LABELS), {}))
    if q:
        h = InverseCircuit(n=3, mode="core")
        h.parallel = True
        h.partial_ok = True
        jobs.append((h, {"time_budget": 45, "chunk_paths": 16, "chunk_s": 8.0}))
    # n = 4: the generator matrices cannot be enumerated (2^32); a budgeted, seeded-random exploration still decides
    # every explored path for all 16 sign patterns
    h = InverseCircuit(n=4, mode="core")
    h.parallel = True
    h.partial_ok = True
    jobs.append((h, {"time_budget": 45 if q else 1800, "chunk_paths": 8, "chunk_s": 8.0}))
    if not q:
        h = InverseCircuit(n=3, mode="core")
        h.parallel = True
        h.partial_ok = True  # ~181k paths; budget generous enough to complete on an idle machine
        jobs.append((h, {"time_budget": 3 * 3600, "chunk_paths": 64}))
    return jobs
