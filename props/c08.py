"""
C08 -- conversions among graph, stabilizer and density-matrix forms preserve the state
       (graph <-> stabilizer clauses and state_to_graph; every pair involving 'dm' is outside the claim).
"""
from __future__ import annotations

import itertools

import numpy as np

from oracle import pauli as O
from symnp.sym import b_and, b_or, b_not, b_implies
from vf.common import (Harness, cells, declare_graph, declare_stabilizer, assume_valid_stabilizer, fresh_stabilizer,
                       stab_rows, post_rows, prove_inv)
from props.c09 import NxHarness, graph_rows

EXPLANATION = (
    "Bounded symbolic execution of the real graph->stabilizer builders (_graph_to_stabilizer_pure, graph_to_stabilizer, "
    "QuantumState.convert_representation g->s), stabilizer->graph (stabilizer_to_graph / _graph_finder on M.[I|Gamma] "
    "for a symbolic graph and a symbolic invertible change of generating set M with oracle-computed signs; "
    "convert_representation s->g) and state_to_graph on an ARBITRARY valid stabilizer tableau: the returned (H, P_dag, Z) "
    "gate list, applied by the independent Pauli oracle to the input generators, must land exactly in the group of the "
    "returned graph's state with + signs. np.linalg.det on symbolic 0/1 matrices is modelled by exact cofactor arithmetic, "
    "np.linalg.inv concretises its argument by forking and then runs the real float inverse. Of the density-matrix -> graph "
    "route only the projection step is decided: dmf.project_and_remove (as density_to_graph calls it) on a SYMBOLIC Hermitian "
    "rho whose all-|0> outcome has non-zero weight returns exactly that block divided by its weight (z3 reals, one division).")
ASSUMPTIONS = ["A1 z3 sound", "A2 numpy object-array semantics", "A4 exact integer determinant stands in for the float det of small 0/1 matrices",
               "A5 networkx conversions faithful"]
BOUNDS = {"quick": {"graph->stab": "n<=4", "stab->graph (M.[I|G])": "n<=2", "state_to_graph": "n<=2", "project_and_remove": "n<=3 every proper mask, n=4 masks keeping two qubits"},
          "thorough": {"graph->stab": "n<=5", "stab->graph": "n<=3", "state_to_graph": "n<=3 (three-hour budget, ~181k paths), n=4 30 min budget", "project_and_remove": "n<=3 every proper mask, n=4,5 masks keeping two qubits"}}
OUTSIDE = ("every pair involving 'dm' (graph_to_density is concrete numerics once the graph is fixed; density_to_graph needs "
           "negativity / eigh) -- those clauses are NOT decided here, except the projection step project_and_remove for outcomes of "
           "non-zero weight (the zero-weight fallback to the complementary projector has no specification and is not judged); mixed states; large-n float det/inv")


class GraphToStab(NxHarness):
    def input_space(self):
        return self.n * (self.n - 1) // 2

    def declare(self, S):
        return declare_graph(S, self.n)

    def body(self, S, spec):
        import graphiq.backends.state_rep_conversion as rc
        n = self.n
        a = cells(spec["adj"])
        want = graph_rows(a, n)
        t = rc._graph_to_stabilizer_pure(spec["adj"].copy())
        for i, (r, w) in enumerate(zip(stab_rows(t), want)):
            S.prove(f"_graph_to_stabilizer_pure-row[{i}]", O.row_eq(r, w))
        lst = rc.graph_to_stabilizer(spec["adj"].copy())
        S.prove("graph_to_stabilizer-weight-1", len(lst) == 1 and lst[0][0] == 1.0)
        for i, (r, w) in enumerate(zip(stab_rows(lst[0][1]), want)):
            S.prove(f"graph_to_stabilizer-row[{i}]", O.row_eq(r, w))


class ConvertGS(NxHarness):
    """QuantumState(graph).convert_representation('s') and back to 'g'"""

    weight = 30

    def input_space(self):
        return self.n * (self.n - 1) // 2

    def declare(self, S):
        return declare_graph(S, self.n)

    def body(self, S, spec):
        from graphiq.state import QuantumState
        import networkx as nx
        n = self.n
        a = cells(spec["adj"])
        if S.symbolic:
            from symnp.stubs import SymGraph
            g = SymGraph(spec["adj"].copy()).to_real()
        else:
            g = nx.from_numpy_array(np.asarray(spec["adj"]))
        if getattr(self, "order", "sorted") == "reversed":
            # same graph, vertices inserted in decreasing label order: qubit k is the k-th vertex of G.nodes() (the
            # convention of every conversion, nx.to_numpy_array's default), i.e. label n-1-k
            g2 = nx.Graph()
            g2.add_nodes_from(range(n - 1, -1, -1))
            g2.add_edges_from(g.edges())
            g = g2
            a = [[a[n - 1 - i][n - 1 - j] for j in range(n)] for i in range(n)]
        qs = QuantumState(g, rep_type="g")
        qs.convert_representation("s")
        S.prove("rep-type-s", qs.rep_type == "s")
        C = qs.rep_data.data
        if prove_inv(S, C):
            d, s = post_rows(C)
            for i, w in enumerate(graph_rows(a, n)):
                S.prove(f"g->s-generator[{i}]", O.member_with_destabs(w, s, d))
        qs.convert_representation("g")
        S.prove("rep-type-g", qs.rep_type == "g")
        adj2 = nx.to_numpy_array(qs.rep_data.data, nodelist=sorted(qs.rep_data.data.nodes())).astype(int)
        S.prove("s->g-recovers-graph (vertex k = qubit k)", b_and(*[O.eq_bits(int(adj2[i, j]), a[i][j]) for i in range(n) for j in range(n)]))


class StabToGraph(NxHarness):
    """stabilizer_to_graph on M.[I|Gamma]: Gamma symbolic, M symbolic invertible (any generating set), signs by oracle"""

    weight = 60

    def input_space(self):
        return self.n * (self.n - 1) // 2 + self.n * self.n

    def declare(self, S):
        spec = declare_graph(S, self.n)
        n = self.n
        M = [[S.bit(f"M_{i}_{j}") for j in range(n)] for i in range(n)]
        spec["M"] = M
        # M invertible over GF(2): no non-trivial combination of its rows vanishes
        cs = []
        for coeffs in itertools.product((0, 1), repeat=n):
            if not any(coeffs):
                continue
            cols = []
            for j in range(n):
                acc = 0
                for i in range(n):
                    if coeffs[i]:
                        acc = acc ^ M[i][j]
                cols.append(O.eq_bits(acc, 1))
            cs.append(b_or(*cols))
        S.assume(b_and(*cs))
        return spec

    def body(self, S, spec):
        import graphiq.backends.state_rep_conversion as rc
        from graphiq.backends.stabilizer.tableau import StabilizerTableau
        import networkx as nx
        n = self.n
        a = cells(spec["adj"])
        gens = graph_rows(a, n)
        rows = [O.product_by_coeffs(gens, spec["M"][i]) for i in range(n)]
        if S.symbolic:
            from symnp.arr import sym_zeros
            table, phase = sym_zeros((n, 2 * n)), sym_zeros(n)
        else:
            table, phase = np.zeros((n, 2 * n), dtype=int), np.zeros(n, dtype=int)
        for i, r in enumerate(rows):
            for j in range(n):
                table[i, j] = r.x[j]
                table[i, n + j] = r.z[j]
            phase[i] = r.hi
        T = StabilizerTableau(table, phase)
        out = rc.stabilizer_to_graph(T, validate=False)
        S.prove("one-component", len(out) == 1 and out[0][0] == 1.0)
        g = out[0][1]
        adj2 = nx.to_numpy_array(g, nodelist=range(n)).astype(int)
        S.prove("recovers-graph", b_and(*[O.eq_bits(int(adj2[i, j]), a[i][j]) for i in range(n) for j in range(n)]))


class StateToGraph(NxHarness):
    weight = 80

    def input_space(self):
        return 2 * self.n * self.n + self.n

    def declare(self, S):
        spec = declare_stabilizer(S, self.n)
        assume_valid_stabilizer(S, spec)
        return spec

    def body(self, S, spec):
        import graphiq.backends.state_rep_conversion as rc
        import networkx as nx
        n = self.n
        inp = stab_rows(spec)
        if self.kind == "clifford":
            from graphiq.backends.stabilizer.clifford_tableau import CliffordTableau
            state = CliffordTableau(fresh_stabilizer(spec))
        else:
            state = fresh_stabilizer(spec)
        graph, tab, gates = rc.state_to_graph(state)
        adj2 = nx.to_numpy_array(graph, nodelist=range(n)).astype(int)
        S.prove("graph-is-simple", all(adj2[i, i] == 0 for i in range(n)) and np.array_equal(adj2, adj2.T))
        S.prove("gate-names", all(g[0] in ("H", "P_dag", "Z") for g in gates))
        gens2 = graph_rows([[int(adj2[i, j]) for j in range(n)] for i in range(n)], n)
        for i, r in enumerate(inp):
            w = r
            for g in gates:
                w = O.apply1(w, g[0], g[1])
            S.prove(f"gates-map-generator-into-graph-state-group-with-sign[{i}]", O.member_by_enumeration(w, gens2))
        # the returned tableau "corresponds to the initial state" (it is canonicalised in place by _phase_correction):
        # same group, same signs
        out = stab_rows(tab)
        for i, r in enumerate(out):
            S.prove(f"returned-tableau-row-in-input-group[{i}]", O.member_by_enumeration(r, inp))
        for i, r in enumerate(inp):
            S.prove(f"input-row-in-returned-tableau-group[{i}]", O.member_by_enumeration(r, out))


class ProjectAndRemove(Harness):
    """the projection step of density_to_graph: dmf.project_and_remove(rho, mask) on a SYMBOLIC Hermitian rho whose
    all-|0> outcome on the masked qubits has non-zero weight w must return the block <0..0|rho|0..0> divided by w
    (the negativity computed from it afterwards goes through eigh and stays outside the claim)"""

    def install(self):
        from symnp import install as sinstall
        sinstall.install(np_modules=["graphiq.backends.density_matrix.functions"], int_modules=[], summaries=False)

    def declare(self, S):
        from vf.common import declare_rho
        return declare_rho(S, self.n)

    def body(self, S, spec):
        import graphiq.backends.density_matrix.functions as dmf
        from oracle import dm as D
        from vf.common import rho_cells
        n, mask = self.n, list(self.mask)
        rho = rho_cells(spec["rho"])
        keep = [i for i in range(n) if not mask[i]]
        k = len(keep)
        K = 1 << k

        def full(a):
            idx = 0
            for pos, q in enumerate(keep):
                if (a >> (k - 1 - pos)) & 1:
                    idx |= 1 << (n - 1 - q)
            return idx

        w = rho[full(0)][full(0)]
        for a in range(1, K):
            w = w + rho[full(a)][full(a)]
        S.assume(w.real > 0)
        got = dmf.project_and_remove(spec["rho"].copy(), mask)
        S.prove("shape", tuple(np.shape(got)) == (K, K))
        g = rho_cells(got)
        for a in range(K):
            for b in range(K):
                # got = block / w  <=>  got * w = block   (w > 0 assumed)
                if getattr(self, "form", "mul") == "div":
                    S.prove(f"projected-entry[{a},{b}]", D.close(g[a][b], rho[full(a)][full(b)] / w, 1e-9))
                else:
                    S.prove(f"projected-entry[{a},{b}]", D.close(g[a][b] * w, rho[full(a)][full(b)], 1e-9))


def plan(tier):
    q = tier == "quick"
    jobs = []
    for n in ([1, 2, 3, 4] if q else [1, 2, 3, 4, 5]):
        jobs.append((GraphToStab(n=n), {}))
    for n in ([2, 3] if q else [2, 3, 4]):
        jobs.append((ConvertGS(n=n), {}))
        jobs.append((ConvertGS(n=n, order="reversed"), {}))
    for n in ([1, 2] if q else [1, 2, 3]):
        h = StabToGraph(n=n)
        h.parallel = n >= 3
        jobs.append((h, {"time_budget": 3000}))
    for n in ([1, 2] if q else [1, 2]):
        jobs.append((StateToGraph(n=n, kind="stabilizer"), {}))
    jobs.append((StateToGraph(n=2, kind="clifford"), {}))
    for n, budget in (((3, 40), (4, 50)) if q else ((4, 1800),)):
        # budgeted, seeded-random exploration of the next sizes (every explored path is decided for all sign patterns)
        h = StateToGraph(n=n, kind="stabilizer")
        h.parallel = True
        h.partial_ok = True
        jobs.append((h, {"time_budget": budget, "chunk_paths": 4, "chunk_s": 8.0}))
    if not q:
        h = StateToGraph(n=3, kind="stabilizer")
        h.parallel = True
        h.partial_ok = True  # ~181k paths (= every 3-qubit generator matrix); complete in ~1.5 h on an idle 16-core machine
        jobs.append((h, {"time_budget": 3 * 3600, "chunk_paths": 64}))
    for n in ([2, 3, 4] if q else [2, 3, 4, 5]):
        for mask in itertools.product((0, 1), repeat=n):
            if 0 < sum(mask) < n and (n - sum(mask) == 2 or n <= 3):
                jobs.append((ProjectAndRemove(n=n, mask=list(mask), form='div'), {}))
    return jobs
