"""
C20 -- the single-qubit Clifford library is complete, closed and consistently ordered.
"""
from __future__ import annotations

import itertools

import numpy as np

from oracle import pauli as O
from symnp.sym import b_and, b_or, b_not, b_implies
from vf.common import Harness, cells, declare_clifford, fresh_clifford, pre_rows, post_rows

EXPLANATION = (
    "For each gate list g of ops.one_qubit_cliffords() (a finite, completely enumerated library) the FRAME MAP phi_g on a "
    "symbolic signed Pauli (x, z, r) is obtained by symbolically executing the real stabilizer compile of "
    "OneQubitGateWrapper(g) (real unwrap() order, real StabilizerCompiler.compile_one_gate) on a symbolic one-qubit "
    "tableau. z3 then decides: pairwise distinctness (exists a Pauli with phi_g != phi_h: 276 sat queries), closure and "
    "simplify_local_clifford (for all Paulis phi_{g+h} == phi_k for the member k returned for the concatenated list: 576 "
    "unsat queries, plus every word of length <= 3 over {I,H,P,X,Y,Z}), and 'last listed acts first': phi_g equals the "
    "oracle conjugation by the matrix product of the list. The density-matrix side is tied in by comparing "
    "local_clifford_to_matrix_map(g) and the unitary sequence the DM compiler applies for the wrapper with the oracle's "
    "product matrix up to global phase (concrete 2x2 numerics on the 24 + 258 lists; stated as such), and its action on "
    "a symbolic Hermitian rho is covered by C01's density-matrix leg. A one-qubit Clifford is determined up to global "
    "phase by its action on +-X, +-Z (A6), so frame-map equality is equality up to global phase.")
ASSUMPTIONS = ["A1 z3 sound", "A6 a one-qubit Clifford is determined up to global phase by its action on +-X, +-Z",
               "the library is a concrete finite list; its enumeration (24 lists, 258 words) is exhaustive, the quantifier the solver decides is the Pauli (x,z,r)"]
BOUNDS = {"quick": {"library": "all 24 lists; all 24x24 products; words up to length 2"},
          "thorough": {"library": "all 24 lists; all 24x24 products; words up to length 3"}}
OUTSIDE = "single_qubit_wrapper_info export text (C14)"

NAME = {"Identity": "I", "Hadamard": "H", "Phase": "P", "PhaseDagger": "P_dag", "SigmaX": "X", "SigmaY": "Y", "SigmaZ": "Z"}


def oracle_matrix(names):
    m = np.eye(2, dtype=complex)
    for nm in names:
        m = m @ O.ONE_QUBIT[nm]
    return m


def equal_up_to_phase(a, b):
    idx = np.argmax(np.abs(b))
    r, c = divmod(int(idx), b.shape[1])
    if abs(b[r, c]) < 1e-9:
        return False
    ph = a[r, c] / b[r, c]
    return bool(abs(abs(ph) - 1) < 1e-9 and np.allclose(a, ph * b, atol=1e-9))


def frame_of_wrapper(S, spec, gate_classes, reg_type="e", single_noise=False):
    """run the real stabilizer compile of a wrapper on the symbolic one-qubit tableau; return post rows"""
    import graphiq.circuit.ops as ops
    from graphiq.backends.stabilizer.compiler import StabilizerCompiler
    from graphiq.backends.compiler_base import CompilerBase
    from graphiq.state import QuantumState

    T = fresh_clifford(spec)
    state = QuantumState(data=T, rep_type="s", mixed=False)
    comp = StabilizerCompiler()
    if single_noise:
        # ONE noise model for the whole wrapper (what a noise map with an "OneQubitGateWrapper" key produces): unwrap()
        # takes a different branch and inserts an Identity carrying the noise; with noise simulation off nothing else changes
        import graphiq.noise.noise_models as nm
        w = ops.OneQubitGateWrapper(list(gate_classes), register=0, reg_type=reg_type, noise=nm.PauliError("X"))
    else:
        w = ops.OneQubitGateWrapper(list(gate_classes), register=0, reg_type=reg_type)
    q_index = CompilerBase.reg_to_index_func(1 if reg_type == "p" else 0)
    creg = np.zeros(1)
    for sub in w.unwrap():
        comp.compile_one_gate(state, sub, 1, q_index, creg)
    d, s = post_rows(state.rep_data.data)
    return d + s


def oracle_frame(rows, names):
    """the list denotes the matrix product: the LAST listed gate acts first"""
    out = []
    for r in rows:
        w = r
        for nm in reversed(names):
            if nm != "I":
                w = O.apply1(w, nm, 0)
        out.append(w)
    return out


class Library(Harness):
    weight = 30

    def declare(self, S):
        return declare_clifford(S, 1, destab_iphase=False)

    def body(self, S, spec):
        import graphiq.circuit.ops as ops

        lib = [list(g) for g in ops.one_qubit_cliffords()]
        S.prove("library-has-24-entries", len(lib) == 24)
        d, s = pre_rows(spec)
        rows = d + s
        frames = []
        for gi, g in enumerate(lib):
            names = [NAME[c.__name__] for c in g]
            fr = frame_of_wrapper(S, spec, g, reg_type=self.reg_type, single_noise=bool(getattr(self, "single_noise", 0)))
            frames.append(fr)
            want = oracle_frame(rows, names)
            S.prove(f"stabilizer-backend-applies-last-listed-first[{gi}]", b_and(*[O.row_eq(a, b) for a, b in zip(fr, want)]))
            m_lib = ops.local_clifford_to_matrix_map(g)
            S.prove(f"matrix-map-is-the-product-of-the-list[{gi}]", equal_up_to_phase(np.asarray(m_lib, dtype=complex), oracle_matrix(names)))
        if self.part == "distinct":
            for i, j in itertools.combinations(range(24), 2):
                same = b_and(*[O.row_eq(a, b) for a, b in zip(frames[i], frames[j])])
                S.witness(f"distinct[{i},{j}]", b_not(same))
                S.prove(f"matrices-inequivalent[{i},{j}]", not equal_up_to_phase(
                    np.asarray(ops.local_clifford_to_matrix_map(lib[i]), dtype=complex),
                    np.asarray(ops.local_clifford_to_matrix_map(lib[j]), dtype=complex)))
        elif self.part == "closure":
            for i, j in itertools.product(range(24), repeat=2):
                word = lib[i] + lib[j]
                k_list = ops.simplify_local_clifford(word)
                S.prove(f"simplified-product-is-a-member[{i},{j}]", k_list in lib)
                if k_list in lib:
                    k = lib.index(k_list)
                    fr = frame_of_wrapper(S, spec, word, reg_type=self.reg_type)
                    S.prove(f"product-equals-member[{i},{j}]", b_and(*[O.row_eq(a, b) for a, b in zip(fr, frames[k])]))


class Words(Harness):
    """simplify_local_clifford on every word up to a fixed length over {I,H,P,X,Y,Z}"""

    weight = 30

    def declare(self, S):
        return declare_clifford(S, 1, destab_iphase=False)

    def body(self, S, spec):
        import graphiq.circuit.ops as ops

        alphabet = [ops.Identity, ops.Hadamard, ops.Phase, ops.SigmaX, ops.SigmaY, ops.SigmaZ]
        lib = [list(g) for g in ops.one_qubit_cliffords()]
        d, s = pre_rows(spec)
        rows = d + s
        for L in range(1, self.maxlen + 1):
            for word in itertools.product(alphabet, repeat=L):
                word = list(word)
                names = [NAME[c.__name__] for c in word]
                k_list = ops.simplify_local_clifford(word)
                tag = " ".join(names)
                S.prove(f"member[{tag}]", k_list in lib)
                fr_k = frame_of_wrapper(S, spec, k_list)
                want = oracle_frame(rows, names)
                S.prove(f"simplified-equals-word-up-to-phase[{tag}]", b_and(*[O.row_eq(a, b) for a, b in zip(fr_k, want)]))
                S.prove(f"matrix-equal-up-to-phase[{tag}]", equal_up_to_phase(np.asarray(ops.local_clifford_to_matrix_map(k_list), dtype=complex), oracle_matrix(names)))


class DmOrder(Harness):
    """the density-matrix compiler applies, for a wrapper, unitaries whose product (in application order) equals the
    matrix product of the list; and non-Clifford matrices are rejected (concrete 2x2 numerics)"""

    no_obligations_ok = False

    def declare(self, S):
        return {}

    def body(self, S, spec):
        import graphiq.circuit.ops as ops
        from graphiq.backends.density_matrix.compiler import DensityMatrixCompiler

        comp = DensityMatrixCompiler()
        lib = [list(g) for g in ops.one_qubit_cliffords()]
        for gi, g in enumerate(lib):
            names = [NAME[c.__name__] for c in g]
            w = ops.OneQubitGateWrapper(list(g), register=0, reg_type="e")
            total = np.eye(2, dtype=complex)
            for sub in w.unwrap():  # application order
                u = comp.ops[type(sub)](*sub.params)
                if u is None:  # Identity: the compiler applies nothing
                    continue
                total = np.asarray(u, dtype=complex) @ total
            S.prove(f"dm-backend-wrapper-unitary-is-the-list-product[{gi}]", equal_up_to_phase(total, oracle_matrix(names)))
        t_gate = np.diag([1.0, np.exp(1j * np.pi / 4)])
        try:
            ops.find_local_clifford_by_matrix(t_gate)
            S.prove("non-clifford-rejected", False)
        except ValueError:
            S.prove("non-clifford-rejected", True)
        try:
            ops.find_local_clifford_by_matrix(np.array([[1.0, 0.0], [0.0, 0.5]]))
            S.prove("non-unitary-rejected", False)
        except ValueError:
            S.prove("non-unitary-rejected", True)
        # concrete negative twins around EVERY library member C: small rotations of C, rescaled C, C plus a
        # perturbation, sheared C.  (A symbolic 2x2 complex matrix was tried: z3 does not decide 'M is numerically
        # unitary' -- QF_NRA in 8 reals with tolerances -- within minutes, so this clause stays concrete.)
        def rz(t):
            return np.diag([np.exp(-1j * t / 2), np.exp(1j * t / 2)])

        def rx(t):
            return np.array([[np.cos(t / 2), -1j * np.sin(t / 2)], [-1j * np.sin(t / 2), np.cos(t / 2)]])

        shear = np.array([[1.0, 0.7], [0.0, 1.0]])
        bad = 0
        total = 0
        for gi, g in enumerate(lib):
            C = np.asarray(ops.local_clifford_to_matrix_map(g), dtype=complex)
            variants = [C @ rz(1e-2), C @ rz(3e-3), C @ rx(1e-2), rx(5e-3) @ C, 2.0 * C, 0.5 * C, C + 0.4 * O.Z, shear @ C,
                        C @ np.diag([1.0, np.exp(1j * np.pi / 4)]), np.ones((2, 2)) + 0 * C]
            for vi, m in enumerate(variants):
                total += 1
                try:
                    ops.find_local_clifford_by_matrix(m)
                    bad += 1
                    S.prove(f"non-clifford-variant-rejected[{gi},{vi}]", False)
                except ValueError:
                    pass
        S.prove("all-non-clifford-variants-rejected", bad == 0, detail=f"{bad} of {total} accepted")


def plan(tier):
    q = tier == "quick"
    jobs = [(Library(part="distinct", reg_type="e"), {}), (Library(part="closure", reg_type="e"), {}),
            (Library(part="distinct", reg_type="p"), {}), (Words(maxlen=2 if q else 3), {}), (DmOrder(), {}),
            (Library(part="order", reg_type="e", single_noise=1), {}), (Library(part="order", reg_type="p", single_noise=1), {}),
            ]
    return jobs
