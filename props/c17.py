"""
C17 -- density-matrix fidelity / trace distance / partial trace  (PARTIAL-TRACE CLAUSE ONLY).
"""
from __future__ import annotations

import itertools

import numpy as np

from oracle import dm as D
from vf.common import Harness, declare_rho, rho_cells, dm_state

EXPLANATION = (
    "Bounded symbolic execution of the real dmf.partial_trace (numpy.einsum on an object array whose cells are z3 "
    "complex terms), DensityMatrix.partial_trace and QuantumState.partial_trace on a SYMBOLIC Hermitian matrix for every "
    "subset of kept qubits: every entry of the result equals the textbook reduced state (explicit index sums, exact "
    "arithmetic; z3, QF_LRA). Only this clause of C17 is decided: the Uhlmann fidelity, sqrtm_psd, trace_distance, "
    "is_pure/is_psd and the cross-representation metric agreement go through LAPACK (eigh, cholesky) and np.allclose on "
    "floats and are outside what this technique can encode.")
ASSUMPTIONS = ["A1 z3 sound", "A2 numpy object-array semantics (einsum on object arrays = sums of products of cells)",
               "the identity checked is linear in rho, so it is proved for all Hermitian matrices in the box |entries| <= 1, a superset of the density matrices"]
BOUNDS = {"quick": {"partial trace": "n<=3 qubits, every non-empty subset of kept qubits, three entry points; trace_out_qubit n<=4 every position"},
          "thorough": {"partial trace": "n<=4 qubits, every subset; trace_out_qubit n<=5"}}
OUTSIDE = "fidelity (overlap / Uhlmann branches), sqrtm_psd, trace_distance, Fuchs-van de Graaf bounds, is_pure/is_psd, metric agreement across representations -- NOT decided"


class PartialTrace(Harness):
    def install(self):
        from symnp import install as sinstall
        sinstall.install(np_modules=[], int_modules=[], summaries=False)

    def declare(self, S):
        return declare_rho(S, self.n)

    def body(self, S, spec):
        import graphiq.backends.density_matrix.functions as dmf
        from graphiq.backends.density_matrix.state import DensityMatrix

        n = self.n
        rho = rho_cells(spec["rho"])
        keep = list(self.keep)
        want = D.partial_trace(rho, keep, n)
        if self.api == "dmf":
            got = dmf.partial_trace(spec["rho"].copy(), keep, n * [2])
        elif self.api == "DensityMatrix":
            qs = dm_state(spec["rho"].copy(), n)
            qs.rep_data.partial_trace(keep, n * [2])
            got = qs.rep_data.data
        else:
            qs = dm_state(spec["rho"].copy(), n)
            qs.partial_trace(keep, n * [2])
            got = qs.rep_data.data
        K = 1 << len(keep)
        S.prove("shape", tuple(np.shape(got)) == (K, K))
        g = rho_cells(got)
        for k, c in enumerate(D.matrix_close(g, want, 1e-12)):
            S.prove(f"reduced-state-entry[{k}]", c)


class TraceOutQubit(Harness):
    """dmf.trace_out_qubit(rho, q) equals the reduced state on all other qubits"""

    def install(self):
        from symnp import install as sinstall
        sinstall.install(np_modules=[], int_modules=[], summaries=False)

    def declare(self, S):
        return declare_rho(S, self.n)

    def body(self, S, spec):
        import graphiq.backends.density_matrix.functions as dmf

        n, q = self.n, self.q
        rho = rho_cells(spec["rho"])
        got = dmf.trace_out_qubit(spec["rho"].copy(), q)
        if n == 1:
            tr = rho[0][0] + rho[1][1]
            S.prove("trace", D.close(np.asarray(got, dtype=object).reshape(-1)[0] if isinstance(got, np.ndarray) else got, tr, 1e-12))
            return
        want = D.partial_trace(rho, [k for k in range(n) if k != q], n)
        K = 1 << (n - 1)
        S.prove("shape", tuple(np.shape(got)) == (K, K))
        for k, c in enumerate(D.matrix_close(rho_cells(got), want, 1e-12)):
            S.prove(f"reduced-state-entry[{k}]", c)


def plan(tier):
    q = tier == "quick"
    jobs = []
    for n in ([1, 2, 3] if q else [1, 2, 3, 4]):
        for r in range(1, n + 1):
            for keep in itertools.combinations(range(n), r):
                if n == 4 and r == 4:
                    continue
                jobs.append((PartialTrace(n=n, keep=list(keep), api="dmf"), {}))
                if n <= 3:
                    jobs.append((PartialTrace(n=n, keep=list(keep), api="QuantumState"), {}))
        jobs.append((PartialTrace(n=n, keep=[0] if n > 1 else [0], api="DensityMatrix"), {}))
    for n in ([1, 2, 3, 4] if q else [1, 2, 3, 4, 5]):
        for qq in range(n):
            jobs.append((TraceOutQubit(n=n, q=qq), {}))
    return jobs
