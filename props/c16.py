"""
C16 -- relabelling, isomorph search and LC-orbit walks stay in the equivalence class  (relabelling clause and one
orbit step only; the samplers / networkx matchers / RNG walkers are outside the claim).
"""
from __future__ import annotations

import itertools

import numpy as np

from oracle import pauli as O
from symnp.sym import b_and, b_or, b_not, b_implies
from vf.common import Harness, cells, declare_graph
from props.c09 import NxHarness, lc_oracle

EXPLANATION = (
    "Bounded symbolic execution of the real relabel / _perm2matrix on a SYMBOLIC adjacency matrix, one harness run per "
    "permutation (all n! of them): the result has edge (p(u),p(v)) exactly when the input has (u,v), is symmetric and "
    "loop-free (z3, one path each). One step of every LC-orbit explorer is local_comp_graph, whose effect on a symbolic "
    "graph is checked against the oracle's local complementation (stays in the orbit by definition of the orbit).")
ASSUMPTIONS = ["A1 z3 sound", "A2 numpy object-array semantics", "A5 networkx conversions faithful (local_comp_graph)"]
BOUNDS = {"quick": {"relabel": "n<=4, all n! permutations", "orbit step": "n<=5 and n=11 (single path, graph stays symbolic)"},
          "thorough": {"relabel": "n<=5, all n! permutations", "orbit step": "n<=6 and n=11,12"}}
OUTSIDE = ("iso_finder / _label_finder / _add_labels / automorph_check (sampling loops over sets of tuples; iso_finder cannot "
           "run in this sandbox: np.math does not exist in numpy 2.x), get_relabel_map (networkx GraphMatcher), "
           "lc_orbit_finder / rgs / linear / depth-first walkers (networkx + RNG) -- none of these clauses is decided here")


class Relabel(Harness):
    np_modules = ["graphiq.utils.relabel_module"]

    def input_space(self):
        return self.n * (self.n - 1) // 2

    def declare(self, S):
        return declare_graph(S, self.n)

    def body(self, S, spec):
        import graphiq.utils.relabel_module as rm

        n = self.n
        a = cells(spec["adj"])
        for perm in self.perms:
            perm = list(perm)
            out = rm.relabel(spec["adj"].copy(), np.array(perm))
            o = cells(out)
            tag = "".join(map(str, perm))
            S.prove(f"edges-renamed[{tag}]", b_and(*[O.eq_bits(o[perm[u]][perm[v]], a[u][v]) for u in range(n) for v in range(n)]))
            S.prove(f"symmetric-loop-free[{tag}]", b_and(*[O.eq_bits(o[i][j], o[j][i]) for i in range(n) for j in range(n)], *[O.eq_bits(o[i][i], 0) for i in range(n)]))
            pm = cells(rm._perm2matrix(perm))
            S.prove(f"perm-matrix[{tag}]", b_and(*[O.eq_bits(pm[i][j], 1 if perm[i] == j else 0) for i in range(n) for j in range(n)]))


class OrbitStep(NxHarness):
    """one step of every orbit walker = local_comp_graph"""

    def declare(self, S):
        return declare_graph(S, self.n)

    def body(self, S, spec):
        import graphiq.backends.lc_equivalence_check as lc
        import networkx as nx
        n, v = self.n, self.v
        if S.symbolic:
            from symnp.stubs import SymGraph
            g = SymGraph(spec["adj"].copy())
        else:
            g = nx.from_numpy_array(np.asarray(spec["adj"]))
        g1 = lc.local_comp_graph(g, np.array([v]) if getattr(self, "as_array", 0) else v)  # the orbit explorers pass np.argwhere rows
        a1 = cells(g1.adj_matrix) if (S.symbolic and not isinstance(g1, nx.Graph)) else cells(nx.to_numpy_array(g1, nodelist=range(n)).astype(int))
        want = lc_oracle(cells(spec["adj"]), v, n)
        S.prove("step-is-a-local-complementation", b_and(*[O.eq_bits(a1[i][j], want[i][j]) for i in range(n) for j in range(n)]))


def plan(tier):
    q = tier == "quick"
    jobs = []
    for n in ([2, 3, 4] if q else [2, 3, 4, 5]):
        perms = [list(p) for p in itertools.permutations(range(n))]
        chunk = 24
        for k in range(0, len(perms), chunk):
            jobs.append((Relabel(n=n, perms=perms[k:k + chunk]), {}))
    for n in ([3, 4, 5, 11] if q else [3, 4, 5, 6, 11, 12]):
        for v in (range(n) if n <= 6 else (0, 1, n // 2, n - 1)):
            jobs.append((OrbitStep(n=n, v=v), {}))
            if n <= 5:
                jobs.append((OrbitStep(n=n, v=v, as_array=1), {}))
    return jobs
