"""
C06 -- noisy simulation is physical, backend-independent and switchable  (numeric core: the three supported noise
models on both representations, and the compile() step for one-operation circuits).
"""
from __future__ import annotations

import itertools

import numpy as np

from oracle import pauli as O
from oracle import dm as D
from symnp.sym import b_and, b_or, b_not, b_implies
from vf.common import (Harness, cells, declare_rho, rho_cells, dm_state, declare_clifford, assume_inv, fresh_clifford,
                       pre_rows, post_rows, prove_inv)

EXPLANATION = (
    "Bounded symbolic execution of the real DepolarizingNoise / PauliError / PhotonLoss .apply on (i) a SYMBOLIC Hermitian "
    "density matrix with a SYMBOLIC noise strength p in [0,1] (z3 reals; np.sqrt of the Kraus weights becomes a fresh "
    "s >= 0 with s*s = w, QF_NRA of degree 2) and (ii) a symbolic Inv tableau inside a real Stabilizer/MixedStabilizer "
    "with symbolic p. Obligations: the density-matrix result equals the Kraus sum sum_k w_k(p) P_k rho P_k written out by "
    "the oracle (hence trace = survival * tr rho; complete positivity holds by the Kraus form itself); the stabilizer "
    "mixture is exactly [(w_k(p) p_i, P_k T_i)] with the SAME weights and the SAME Paulis (row-wise sign flips by the "
    "Pauli-algebra oracle), total weight equal; p = 0 reproduces the input exactly. CompilerBase.compile on one-operation "
    "circuits: noise placed before/after the gate is applied in that order, and with an empty map / NoNoise / "
    "noise_simulation switched off the result is identical to the noiseless compile. `DmNoiseShared`: ONE noise object applied "
    "to two different qubits in turn gives the composition of the two channels (no state carried between calls); strength on a "
    "concrete grid, rho symbolic.")
ASSUMPTIONS = ["A1 z3 sound (NRA: any `unknown` makes the run inconclusive)", "A2 numpy object-array semantics",
               "A4 exact rational arithmetic for float constants; sqrt modelled exactly",
               "rho ranges over Hermitian matrices with diag in [0,1], |off-diagonal parts| <= 1 (superset of density matrices); p in [0,1]"]
BOUNDS = {"quick": {"dm": "n<=2, every target qubit; shared noise object: n=2, both qubit orders, p in {0.1, 0.45, 1} (n<=3 thorough)", "stabilizer mixture": "n<=2"}, "thorough": {"dm": "n<=3", "stabilizer mixture": "n<=2, two-component mixtures"}}
OUTSIDE = ("PSD as such (implied by the Kraus form, not encoded); all circuits x all maps beyond one-operation circuits (composition "
           "rests on C01's induction); assign_noise/_noisy_gates/_identify_noise map plumbing and Monte-Carlo noise; equal fidelity "
           "of the two results follows from the decomposition equality plus C05 and is not separately computed")


def sym_p(S, name="p"):
    p = S.real(name)
    S.assume(p >= 0)
    S.assume(p <= 1)
    return p


class DmNoise(Harness):
    weight = 20

    def install(self):
        from symnp import install as sinstall
        sinstall.install(np_modules=["graphiq.noise.noise_models"], int_modules=[], summaries=False)
        sinstall.install_dm_state()

    def declare(self, S):
        spec = declare_rho(S, self.n)
        spec["p"] = sym_p(S)
        return spec

    def body(self, S, spec):
        import graphiq.noise.noise_models as nm

        n, q = self.n, self.q
        p = spec["p"]
        if getattr(self, "pval", None) is not None:
            # 16 symbolic square roots make the two-qubit channel a hard QF_NRA query (z3: unknown); as planned in the
            # design the obligation is posed on a grid of concrete strengths with rho still fully symbolic (QF_LRA)
            p = float(self.pval)
        rho = rho_cells(spec["rho"])
        qs = dm_state(spec["rho"].copy(), n)
        if self.model == "depolarizing2":
            # two-qubit depolarizing channel on (q, q2): 16 Pauli pairs, weight 1-p on II and p/15 on each other pair
            q2 = (q + 1) % n
            nm.DepolarizingNoise(p).apply(qs, n, [q, q2])
            N = 1 << n
            acc = [[0 for _ in range(N)] for _ in range(N)]
            for ga in ("I", "X", "Y", "Z"):
                for gb in ("I", "X", "Y", "Z"):
                    if ga == "I" and gb == "I":
                        continue
                    t = D.apply_1q(D.apply_1q(rho, ga, q, n), gb, q2, n)
                    acc = D.add(acc, t)
            want = [[(1 - p) * rho[i][j] + (p / 15) * acc[i][j] for j in range(N)] for i in range(N)]
        elif self.model == "depolarizing":
            nm.DepolarizingNoise(p).apply(qs, n, [q])
            terms = [D.apply_1q(rho, g, q, n) for g in ("X", "Y", "Z")]
            N = 1 << n
            want = [[(1 - p) * rho[i][j] + (p / 3) * (terms[0][i][j] + terms[1][i][j] + terms[2][i][j]) for j in range(N)] for i in range(N)]
        elif self.model.startswith("pauli"):
            g = self.model[-1]
            nm.PauliError(g).apply(qs, n, [q])
            want = D.apply_1q(rho, g, q, n)
        else:
            nm.PhotonLoss(p).apply(qs, n, [q])
            N = 1 << n
            want = [[(1 - p) * rho[i][j] for j in range(N)] for i in range(N)]
        got = rho_cells(qs.rep_data.data)
        for k, c in enumerate(D.matrix_close(got, want, 1e-9)):
            S.prove(f"kraus-sum-entry[{k}]", c)
        tr_got = 0
        tr_in = 0
        for i in range(1 << n):
            tr_got = tr_got + D.real_part(got[i][i])
            tr_in = tr_in + D.real_part(rho[i][i])
        surv = (1 - p) if self.model == "loss" else 1
        S.prove("trace-is-survival-times-input-trace", D.close(tr_got, surv * tr_in, 1e-9))


class DmNoiseShared(DmNoise):
    """ONE noise-model object applied first to qubit q and then to qubit q2 != q of a symbolic rho (as circuits do when
    the same object is attached to several gates, and as the compiler does with `[op.noise] * 2` for a controlled gate):
    the result must be the composition of the two single-qubit channels -- no state may be carried from the first call
    to the second.  Strength on a concrete grid (so that a model may use it as a dictionary key), rho fully symbolic."""
    weight = 25

    def body(self, S, spec):
        import graphiq.noise.noise_models as nm

        n, q, q2 = self.n, self.q, self.q2
        p = float(self.pval)
        rho = rho_cells(spec["rho"])
        qs = dm_state(spec["rho"].copy(), n)
        N = 1 << n
        if self.model == "depolarizing":
            noise = nm.DepolarizingNoise(p)

            def chan(r, qq):
                t = [D.apply_1q(r, g, qq, n) for g in ("X", "Y", "Z")]
                return [[(1 - p) * r[i][j] + (p / 3) * (t[0][i][j] + t[1][i][j] + t[2][i][j]) for j in range(N)] for i in range(N)]
        elif self.model == "loss":
            noise = nm.PhotonLoss(p)

            def chan(r, qq):
                return [[(1 - p) * r[i][j] for j in range(N)] for i in range(N)]
        else:
            g = self.model[-1]
            noise = nm.PauliError(g)

            def chan(r, qq):
                return D.apply_1q(r, g, qq, n)
        noise.apply(qs, n, [q])
        noise.apply(qs, n, [q2])
        want = chan(chan(rho, q), q2)
        got = rho_cells(qs.rep_data.data)
        for k, c in enumerate(D.matrix_close(got, want, 1e-9)):
            S.prove(f"composed-channel-entry[{k}]", c)


class StabNoise(Harness):
    weight = 30

    def install(self):
        from symnp import install as sinstall
        sinstall.install(np_modules=sinstall.NP_MODULES + ["graphiq.noise.noise_models"])

    def declare(self, S):
        spec = declare_clifford(S, self.n)
        assume_inv(S, spec)
        spec["p"] = sym_p(S)
        if self.start == "lossy":
            p2 = sym_p(S, "p2")
        return spec

    def body(self, S, spec):
        import graphiq.noise.noise_models as nm
        from graphiq.state import QuantumState
        from graphiq.backends.stabilizer.state import MixedStabilizer, Stabilizer

        n, q = self.n, self.q
        p = spec["p"]
        T = fresh_clifford(spec)
        qs = QuantumState(T, rep_type="s", mixed=(self.start in ("mixed", "lossy")))
        old_d, old_s = pre_rows(spec)
        w0 = 1
        if self.start == "lossy":
            # a photon was lost earlier with probability p2: the mixture is sub-normalised and must stay so
            p2 = S.real("p2") if S.symbolic else S.real("p2")
            nm.PhotonLoss(p2).apply(qs, n, [q])
            w0 = 1 - p2
        if self.model == "depolarizing":
            nm.DepolarizingNoise(p).apply(qs, n, [q])
            mix = qs.rep_data.mixture
            total = 0
            for w, t in mix:
                total = total + w
            S.prove("total-weight-preserved", D.close(total, w0, 1e-9))
            # every component is P_k T with weight w_k(p); components with equal tableaux may have been merged
            expected = {"I": (1 - p) * w0, "X": (p / 3) * w0, "Y": (p / 3) * w0, "Z": (p / 3) * w0}
            for ci, (w, t) in enumerate(mix):
                if not prove_inv(S, t, tag=f"inv[{ci}]"):
                    return
                d, s = post_rows(t)
                alts = []
                for names in _subsets(["I", "X", "Y", "Z"]):
                    # the component is the (merged) image under every Pauli in `names`
                    conds = []
                    wsum = 0
                    for g in names:
                        img = [r if g == "I" else O.apply1(r, g, q) for r in old_s]
                        conds.append(b_and(*[O.member_with_destabs(r, s, d) for r in img]))
                        wsum = wsum + expected[g]
                    conds.append(D.close(w, wsum, 1e-9))
                    alts.append(b_and(*conds))
                S.prove(f"component-is-a-weighted-Pauli-image[{ci}]", b_or(*alts))
            S.prove("at-most-4-components", len(mix) <= 4)
        elif self.model.startswith("pauli"):
            g = self.model[-1]
            nm.PauliError(g).apply(qs, n, [q])
            rep = qs.rep_data
            t = rep.data if isinstance(rep, Stabilizer) else rep.mixture[0][1]
            if prove_inv(S, t):
                d, s = post_rows(t)
                for i, r in enumerate(old_s):
                    S.prove(f"pauli-image[{i}]", O.member_with_destabs(O.apply1(r, g, q), s, d))
        else:
            nm.PhotonLoss(p).apply(qs, n, [q])
            mix = qs.rep_data.mixture
            S.prove("one-component", len(mix) == 1)
            S.prove("weight-is-survival", D.close(mix[0][0], 1 - p, 1e-9))
            d, s = post_rows(mix[0][1])
            S.prove("tableau-unchanged", b_and(*[O.row_eq(a, b) for a, b in zip(s, old_s)]))


def _subsets(names):
    out = []
    for r in range(1, len(names) + 1):
        for c in itertools.combinations(names, r):
            out.append(list(c))
    return out


class CompileNoise(Harness):
    """CompilerBase.compile on a one-operation circuit (H on an emitter, or CNOT e->p) with a PauliError attached before /
    after the gate, and with noise switched off / NoNoise: order respected, switch respected (stabilizer backend with
    a symbolic initial Inv state; density matrix with symbolic rho)"""

    weight = 30

    def install(self):
        from symnp import install as sinstall
        if self.backend == "s":
            sinstall.install(np_modules=sinstall.NP_MODULES + ["graphiq.noise.noise_models"])
        else:
            sinstall.install(np_modules=["graphiq.noise.noise_models"], int_modules=[], summaries=False)
            sinstall.install_dm_state()
            sinstall.stub("graphiq.backends.density_matrix.functions", "is_psd", lambda *a, **k: True,
                          "is_psd -> True: 'the initial state is a valid density matrix' is the harness precondition "
                          "(LAPACK cholesky cannot run on symbols)")

    def declare(self, S):
        if self.backend == "s":
            spec = declare_clifford(S, 2)
            assume_inv(S, spec)
        else:
            spec = declare_rho(S, 2)
        return spec

    def body(self, S, spec):
        import graphiq.circuit.ops as ops
        import graphiq.noise.noise_models as nm
        from graphiq.circuit.circuit_dag import CircuitDAG
        from graphiq.state import QuantumState

        err = nm.PauliError(self.pauli)
        err.noise_parameters["After gate"] = bool(self.after)
        noise = err if self.noise == "pauli" else nm.NoNoise()
        circuit = CircuitDAG(n_emitter=1, n_photon=1, n_classical=0)
        if self.noise == "pair":
            # different noise on control and target with independent placements
            nc = nm.PauliError(self.pauli)
            nc.noise_parameters["After gate"] = bool(self.after)
            nt = nm.PauliError(self.pauli_t)
            nt.noise_parameters["After gate"] = bool(self.after_t)
            circuit.add(ops.CNOT(control=0, control_type="e", target=0, target_type="p", noise=[nc, nt]))
        elif self.gate == "H":
            circuit.add(ops.Hadamard(register=0, reg_type="e", noise=noise))
        else:
            circuit.add(ops.CNOT(control=0, control_type="e", target=0, target_type="p", noise=[noise, nm.NoNoise()] if self.noise == "pauli" else nm.NoNoise()))
        e, ph = 1, 0  # photons first, then emitters
        if self.backend == "s":
            from graphiq.backends.stabilizer.compiler import StabilizerCompiler
            comp = StabilizerCompiler()
            init = QuantumState(fresh_clifford(spec), rep_type="s")
        else:
            from graphiq.backends.density_matrix.compiler import DensityMatrixCompiler
            comp = DensityMatrixCompiler()
            init = dm_state(spec["rho"].copy(), 2)
        comp.noise_simulation = bool(self.switch)
        if self.backend == "dm" and not S.symbolic:
            # concrete replay: the model's Hermitian matrix need not be PSD (the checked identity is linear and holds
            # for all Hermitian matrices); the constructor's is_psd gate is opened exactly as in the symbolic run
            import graphiq.backends.density_matrix.functions as _dmf
            saved = _dmf.is_psd
            _dmf.is_psd = lambda *a, **k: True
            try:
                out = comp.compile(circuit, initial_state=init)
            finally:
                _dmf.is_psd = saved
        else:
            out = comp.compile(circuit, initial_state=init)
        seq = []
        gate = ("H", e) if self.gate == "H" else ("CNOT", e, ph)
        if self.noise == "pair":
            on = bool(self.switch)
            if on and not self.after:
                seq.append((self.pauli, e))
            if on and not self.after_t:
                seq.append((self.pauli_t, ph))
            seq.append(gate)
            if on and self.after:
                seq.append((self.pauli, e))
            if on and self.after_t:
                seq.append((self.pauli_t, ph))
        else:
            noisy = self.switch and self.noise == "pauli" and self.pauli != "I"
            if noisy and not self.after:
                seq.append((self.pauli, e))
            seq.append(gate)
            if noisy and self.after:
                seq.append((self.pauli, e))
        if self.backend == "s":
            rep = out.rep_data
            t = rep.mixture[0][1] if hasattr(rep, "mixture") else rep.data
            if hasattr(rep, "mixture"):
                S.prove("single-component-weight-1", len(rep.mixture) == 1 and D.close(rep.mixture[0][0], 1, 1e-12))
            _, old_s = pre_rows(spec)
            if prove_inv(S, t):
                d, s = post_rows(t)
                for i, r in enumerate(old_s):
                    w = r
                    for g in seq:
                        w = O.apply_gate(w, g)
                    S.prove(f"state-is-ordered-product[{i}]", O.member_with_destabs(w, s, d))
        else:
            rho = rho_cells(spec["rho"])
            want = rho
            for g in seq:
                want = D.apply_1q(want, g[0], g[1], 2) if len(g) == 2 else D.apply_controlled(want, "X", g[1], g[2], 2)
            got = rho_cells(out.rep_data.data)
            for k, c in enumerate(D.matrix_close(got, want, 1e-9)):
                S.prove(f"state-is-ordered-product[{k}]", c)


def plan(tier):
    q = tier == "quick"
    jobs = []
    for n in ([1, 2] if q else [1, 2, 3]):
        for qq in range(n):
            for model in ("depolarizing", "pauliX", "pauliY", "pauliZ", "pauliI", "loss"):
                jobs.append((DmNoise(n=n, q=qq, model=model), {}))
    for n in ([2] if q else [2, 3]):
        for qq in range(n):
            for pval in (0.0, 0.25, 0.6, 1.0):
                jobs.append((DmNoise(n=n, q=qq, model="depolarizing2", pval=pval), {}))
    for n in ([2] if q else [2, 3]):
        for qa, qb in itertools.permutations(range(n), 2):
            for model, pvals in (("depolarizing", (0.1, 0.45, 1.0)), ("pauliX", (0.0,)), ("pauliY", (0.0,)), ("loss", (0.3,))):
                for pval in pvals:
                    jobs.append((DmNoiseShared(n=n, q=qa, q2=qb, model=model, pval=pval), {}))
    for n in ([1, 2] if q else [1, 2]):
        for qq in range(n):
            for model in ("depolarizing", "pauliX", "pauliY", "pauliZ", "pauliI", "loss"):
                for start in (("pure", "mixed") if model != "depolarizing" else ("pure", "mixed", "lossy")):
                    jobs.append((StabNoise(n=n, q=qq, model=model, start=start), {}))
    for backend in ("s", "dm"):
        for gate in ("H", "CNOT"):
            for pauli in ("X", "Z"):
                for after in (0, 1):
                    jobs.append((CompileNoise(backend=backend, gate=gate, pauli=pauli, after=after, noise="pauli", switch=1), {}))
            jobs.append((CompileNoise(backend=backend, gate=gate, pauli="X", after=1, noise="pauli", switch=0), {}))
            if gate == "CNOT":
                for after, after_t in ((0, 0), (1, 1), (1, 0), (0, 1)):
                    jobs.append((CompileNoise(backend=backend, gate=gate, pauli="X", after=after, pauli_t="Z", after_t=after_t, noise="pair", switch=1), {}))
            jobs.append((CompileNoise(backend=backend, gate=gate, pauli="X", after=1, noise="none", switch=1), {}))
    return jobs
