"""Textbook semantics of non-unitary operations on stabilizer groups (oracle O4), stated as obligations."""
from __future__ import annotations

import itertools

from oracle import pauli as O
from symnp.sym import b_and, b_or, b_not, b_implies, b_iff


def measure_rows_obligations(S, n, old_s, new_d, new_s, q, outcome, det, xp=None, tag=""):
    """Z measurement of qubit q with observed `outcome`: pre-group generators old_s, post tableau (new_d, new_s)
    which must already be known to satisfy Inv (so that membership can be read off new_d)."""
    S.prove(tag + "outcome-is-bit", b_or(O.eq_bits(outcome, 0), O.eq_bits(outcome, 1)))
    # (i) (-1)^outcome Z_q stabilizes the post-state
    zq = O.Row.single(n, q, "Z", sign=outcome)
    S.prove(tag + "measured-Z-with-outcome-sign-in-post-group", O.member_with_destabs(zq, new_s, new_d))
    # (ii) the part of the old group commuting with Z_q survives with its signs
    anti = [O.sp(g, O.Row.single(n, q, "Z")) for g in old_s]  # 1 iff generator anticommutes with Z_q
    for i, g in enumerate(old_s):
        S.prove(tag + f"commuting-generator-kept[{i}]",
                b_implies(O.eq_bits(anti[i], 0), O.member_with_destabs(g, new_s, new_d)))
    for i in range(n):
        for j in range(i + 1, n):
            gij = O.mul(old_s[i], old_s[j])
            S.prove(tag + f"commuting-product-kept[{i},{j}]",
                    b_implies(b_and(O.eq_bits(anti[i], 1), O.eq_bits(anti[j], 1)),
                              O.member_with_destabs(gij, new_s, new_d)))
    # (iii) outcome rule
    random_case = b_or(*[O.eq_bits(a, 1) for a in anti])
    if xp is not None:
        S.prove(tag + "third-return-nonzero-iff-random", b_iff(random_case, b_not(O.eq_bits(xp, 0))))
    if det in (0, 1):
        S.prove(tag + "forced-outcome-when-random", b_implies(random_case, O.eq_bits(outcome, det)))
    return random_case


def group_elements(gens):
    """all 2^k - 1 non-trivial products of the generators (with signs), with their coefficient vectors"""
    n = gens[0].n
    out = []
    for coeffs in itertools.product((0, 1), repeat=len(gens)):
        if not any(coeffs):
            continue
        g = O.Row.identity(n)
        for c, s in zip(coeffs, gens):
            if c:
                g = O.mul(g, s)
        out.append((coeffs, g))
    return out


def cond_apply1(row, name, q, cond):
    """apply the one-qubit gate iff the bit `cond` is 1"""
    return O.select(cond, O.apply1(row, name, q), row)
