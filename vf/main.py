"""
CLI:  check <ID> [--tier quick|thorough] [--workers N]      run the property's harnesses
      check --replay <file>                                   concrete replay on unpatched graphiq
      check --replay-batch <listfile>                         (internal) many replays, JSON lines on stdout
"""
from __future__ import annotations

import argparse
import importlib
import json
import os
import subprocess
import sys
import time

if hasattr(sys, "set_int_max_str_digits"):
    sys.set_int_max_str_digits(0)
VERIF = os.path.dirname(os.path.dirname(os.path.abspath(__file__)))
sys.path.insert(0, VERIF)

from vf import runner  # noqa: E402


def git_head(path):
    try:
        return subprocess.run(["git", "-C", path, "rev-parse", "--short", "HEAD"], capture_output=True, text=True).stdout.strip()
    except Exception:
        return "?"


def git_dirty(path):
    try:
        return bool(subprocess.run(["git", "-C", path, "status", "--porcelain", "-uno"], capture_output=True, text=True).stdout.strip())
    except Exception:
        return None


def do_replay_batch(listfile):
    paths = [l.strip() for l in open(listfile) if l.strip()]
    for p in paths:
        try:
            rep, failures, err = runner.replay_file(p, verbose=False)
            print(json.dumps({"path": p, "reproduced": rep, "failures": [[a, b] for a, b in failures[:5]], "error": err}))
        except BaseException as e:  # noqa
            print(json.dumps({"path": p, "reproduced": False, "failures": [], "error": f"{type(e).__name__}: {e}"}))
        sys.stdout.flush()
    return 0


def replay_batch_subprocess(paths):
    if not paths:
        return {}
    lf = os.path.join(runner.REPLAY_DIR, f".batch_{os.getpid()}.txt")
    with open(lf, "w") as f:
        f.write("\n".join(paths))
    env = dict(os.environ, PYTHONDONTWRITEBYTECODE="1")
    r = subprocess.run([sys.executable, "-m", "vf.main", "--replay-batch", lf], cwd=VERIF, env=env, capture_output=True, text=True)
    os.unlink(lf)
    out = {}
    for line in r.stdout.splitlines():
        if line.startswith("{"):
            d = json.loads(line)
            out[d["path"]] = d
    return out


def main(argv=None):
    ap = argparse.ArgumentParser()
    ap.add_argument("prop", nargs="?")
    ap.add_argument("--tier", default=os.environ.get("VERIF_TIER", "quick"), choices=["quick", "thorough"])
    ap.add_argument("--workers", type=int, default=int(os.environ.get("VERIF_WORKERS", "0")) or min(16, os.cpu_count() or 1))
    ap.add_argument("--replay")
    ap.add_argument("--replay-batch")
    ap.add_argument("--only", help="substring filter on harness names (debugging; evidence is marked partial)")
    ap.add_argument("--no-evidence", action="store_true")
    a = ap.parse_args(argv)
    if a.replay_batch:
        return do_replay_batch(a.replay_batch)
    if a.replay:
        rep, failures, err = runner.replay_file(a.replay)
        return 0 if rep else 3
    if not a.prop:
        ap.error("property id required")
    prop = a.prop.upper()
    seed = int(os.environ.get("VERIF_SEED", "0") or 0)
    t0 = time.time()
    mod = importlib.import_module("props." + prop.lower())
    jobs = mod.plan(a.tier)
    # replay files live in replays/<ID>/run_<pid>/ so that concurrent runs of the same check do not disturb each
    # other; directories of finished runs are stale and removed
    import glob
    import shutil
    for old in glob.glob(os.path.join(runner.REPLAY_DIR, prop, "*.json")):
        os.unlink(old)
    for d in glob.glob(os.path.join(runner.REPLAY_DIR, prop, "run_*")):
        try:
            pid = int(d.rsplit("_", 1)[1])
        except ValueError:
            continue
        if not os.path.exists(f"/proc/{pid}"):
            shutil.rmtree(d, ignore_errors=True)
    runner.RUN_TAG = f"run_{os.getpid()}"
    if a.only:
        jobs = [(h, o) for h, o in jobs if a.only in h.name]
    scale = float(os.environ.get("VERIF_BUDGET_SCALE", "1") or 1)  # stretches the budgets of the budgeted explorations
    for h, o in jobs:
        o.setdefault("seed", seed)
        o.setdefault("smt2_samples", 1 if a.tier == "quick" else 3)
        if o.get("time_budget") and scale != 1:
            o["time_budget"] = o["time_budget"] * scale
    # ---- oracle validation against a dense simulator (validates the trusted base, decides nothing) --------
    from oracle import validate
    ov_fails, ov_counts = validate.run(verbose=False)
    print(f"[{prop}] oracle validation vs dense simulator: {sum(ov_counts.values())} cases, {len(ov_fails)} failures")
    repo = os.environ.get("VERIF_REPO") or "/repo"
    import graphiq as _g
    assert os.path.realpath(os.path.dirname(os.path.dirname(_g.__file__))) == os.path.realpath(repo), \
        f"graphiq imported from {_g.__file__}, expected {repo}"
    print(f"[{prop}] tier={a.tier} jobs={len(jobs)} workers={a.workers} repo={repo}@{git_head(repo)}"
          f"{'+dirty' if git_dirty(repo) else ''}")
    results = runner.run_jobs(jobs, workers=a.workers)

    # ---- classify ------------------------------------------------------------------------------------
    errors, inconclusive, vacuous = [], [], []
    all_viol = []
    for h, tot, err in results:
        if err:
            errors.append((h.name, err))
            continue
        if tot.truncated and not getattr(h, "partial_ok", False):
            inconclusive.append((h.name, "exploration truncated by its budget"))
        elif tot.truncated:
            rest = ("the unexplored remainder is covered by the thorough tier" if a.tier == "quick"
                    else "the unexplored remainder is NOT covered by this run")
            print(f"PARTIAL {h.name}: budgeted exploration stopped after {tot.paths} paths (each explored path is decided "
                  f"by the solver; {rest})")
        if tot.inconclusive and getattr(h, "partial_ok", False):
            print(f"PARTIAL {h.name}: {tot.inconclusive} paths left undecided ({tot.inconclusive_reasons}); they count as unexplored")
        elif tot.inconclusive:
            inconclusive.append((h.name, f"{tot.inconclusive} inconclusive paths: {tot.inconclusive_reasons}"))
        if tot.unknown and getattr(h, "partial_ok", False):
            print(f"PARTIAL {h.name}: {tot.unknown} obligations left undecided by the solver within its time-out")
        elif tot.unknown:
            inconclusive.append((h.name, f"{tot.unknown} obligations unknown"))
        if tot.paths == 0 or (tot.obligations == 0 and not getattr(h, "no_obligations_ok", False)):
            vacuous.append((h.name, "no path reached an obligation"))
        if tot.vacuous:
            vacuous.append((h.name, f"{tot.vacuous} vacuity witnesses failed"))
        for v in tot.violations:
            all_viol.append((h, v))

    if ov_fails:
        errors.append(("oracle-validation", "; ".join(ov_fails[:5])))
    # ---- engine/oracle cross-check: random concrete inputs satisfying the assumptions must pass the same harness
    #      on the UNPATCHED code whenever the symbolic run discharged everything (differential, decides nothing) ---
    sample_paths = []
    for h, tot, err in results:
        if tot is None or tot.violations:
            continue
        for mv in getattr(tot, "concrete_samples", []) or []:
            v = {"name": "concrete-sample", "detail": "random model of the assumptions", "model": mv}
            sample_paths.append((h, runner.write_replay(prop, h, v)))
    srep = replay_batch_subprocess([p for _, p in sample_paths])
    n_samples_ok = 0
    for h, pth in sample_paths:
        r = srep.get(pth, {"reproduced": True, "failures": [["?", "no replay output"]], "error": None})
        if r["reproduced"] or r.get("error"):
            errors.append((h.name, f"concrete sample FAILED on the real code although the symbolic run discharged every obligation "
                                   f"(engine or oracle inconsistency): {r['failures'][:2]} {r.get('error')} replay={pth}"))
        else:
            n_samples_ok += 1
            try:
                os.unlink(pth)
            except OSError:
                pass
    print(f"[{prop}] concrete cross-check: {n_samples_ok}/{len(sample_paths)} random concrete inputs pass the harness on the unpatched code")
    # ---- cross-solver re-check of sampled obligations (SMT-LIB2 -> z3 4.8.12 binary, cvc5 binary) ----------
    smt_samples = []
    for h, tot, err in results:
        if tot is not None:
            for n_, t_ in getattr(tot, "smt2_samples", []) or []:
                smt_samples.append((h.name, n_, t_))
    import random as _r
    _r.Random(seed).shuffle(smt_samples)
    smt_samples = smt_samples[: (12 if a.tier == "quick" else 48)]
    os.makedirs(runner.REPLAY_DIR, exist_ok=True)
    xs_stats, xs_bad = runner.cross_solver_check(smt_samples, runner.REPLAY_DIR, timeout=30 if a.tier == "quick" else 60)
    print(f"[{prop}] cross-solver re-check of {len(smt_samples)} sampled obligations: {xs_stats}")
    for b in xs_bad:
        errors.append(("cross-solver", b))
    # ---- CrossHair on pure-python leaf functions (second engine) -----------------------------------------
    xh = {}
    for pth in getattr(mod, "CROSSHAIR", []):
        confirmed, other = runner.crosshair_check(pth)
        xh[pth] = {"confirmed": confirmed, "not_confirmed": other}
        print(f"[{prop}] crosshair {pth}: {confirmed} conditions confirmed over all paths, {len(other)} not confirmed")
        if other or not confirmed:
            inconclusive.append(("crosshair:" + pth, f"not confirmed: {other[:3]}"))
    # ---- replay every solver model on the unpatched code ---------------------------------------------
    paths = []
    for h, v in all_viol:
        v["replay"] = runner.write_replay(prop, h, v)
        paths.append(v["replay"])
    rep = replay_batch_subprocess(sorted(set(paths)))
    n_viol, n_known, n_norepro = 0, 0, 0
    known_lines, viol_lines = {}, []
    for h, v in all_viol:
        r = rep.get(v["replay"], {"reproduced": False, "failures": [], "error": "no replay output"})
        v["reproduced"] = r["reproduced"]
        ftxt = " ; ".join(f"{a_} {b_}" for a_, b_ in r["failures"]) if r["failures"] else ""
        v["real_code_failures"] = ftxt
        if not r["reproduced"]:
            n_norepro += 1
            errors.append((h.name, f"solver model did not reproduce on the real code ({v['name']}: {v['detail']}; "
                                   f"{r.get('error')}) replay={v['replay']}"))
            continue
        k = runner.match_known(prop, h, v, ftxt)
        if k is not None:
            n_known += 1
            v["known"] = k["id"]
            known_lines.setdefault(k["id"], [k, 0, v["replay"]])[1] += 1
            try:
                os.unlink(v["replay"])
            except OSError:
                pass
        else:
            n_viol += 1
            viol_lines.append(v["replay"])
    for kid, (k, cnt, sample) in sorted(known_lines.items()):
        print(f"KNOWN-FINDING: property={prop} {kid}: {k['what']} ({cnt} solver models matched)")
    for p in sorted(set(viol_lines))[:20]:
        print(f"VIOLATION property={prop} replay={p}")
    for name, msg in vacuous:
        print(f"VACUOUS {name}: {msg}")
    for name, msg in inconclusive:
        print(f"INCONCLUSIVE {name}: {msg}")
    if len(errors) > 12:
        print(f"... {len(errors) - 12} more harness errors not shown")
    for name, msg in errors[:12]:
        print(f"HARNESS-ERROR {name}: {msg.splitlines()[0] if msg else msg}")
        if msg and "\n" in msg:
            print("    " + "\n    ".join(msg.splitlines()[1:12]))

    wall = time.time() - t0
    if not a.no_evidence:
        from vf import evidence

        evidence.write(prop, a.tier, seed, mod, results, all_viol, wall, partial=bool(a.only),
                       n_viol=n_viol, n_known=n_known, problems=[*vacuous, *inconclusive, *errors],
                       extra={"oracle_validation_cases": ov_counts, "oracle_validation_failures": len(ov_fails),
                              "concrete_crosscheck_samples": len(sample_paths), "concrete_crosscheck_passed": n_samples_ok,
                              "cross_solver_recheck": {"obligations_sampled": len(smt_samples), "results": xs_stats, "disagreements": xs_bad},
                              "crosshair": xh})
    status = 1 if n_viol else (2 if (errors or inconclusive or vacuous) else 0)
    tp = sum(t.paths for _, t, e in results if t)
    to = sum(t.obligations for _, t, e in results if t)
    td = sum(t.discharged for _, t, e in results if t)
    print(f"[{prop}] {'HELD' if status == 0 else ('VIOLATED' if status == 1 else 'INCONCLUSIVE')} paths={tp} "
          f"obligations={to} discharged={td} known={n_known} violations={n_viol} wall={wall:.1f}s")
    return status


if __name__ == "__main__":
    sys.exit(main())
