"""Evidence writer (schema /root/.vp/EVIDENCE.schema.json, level "other" with explanation + generic counters)."""
from __future__ import annotations

import json
import os

from vf import runner


def write(prop, tier, seed, mod, results, all_viol, wall, partial, n_viol, n_known, problems, extra=None):
    os.makedirs(runner.EVIDENCE_DIR, exist_ok=True)
    jobs = []
    tot = {"paths": 0, "obligations": 0, "discharged": 0, "unknown": 0, "infeasible": 0, "inconclusive": 0,
           "witnessed": 0, "checks": 0, "sat": 0, "unsat": 0, "solver_unknown": 0, "solver_s": 0.0, "forks": 0}
    functions = set()
    stubs = {}
    samples = []
    nontrivial = 0
    for h, t, err in results:
        if t is None:
            jobs.append({"harness": h.name, "error": (err or "").splitlines()[0] if err else None})
            continue
        tot["paths"] += t.paths
        tot["obligations"] += t.obligations
        tot["discharged"] += t.discharged
        tot["unknown"] += t.unknown
        tot["infeasible"] += t.infeasible
        tot["inconclusive"] += t.inconclusive
        tot["witnessed"] += t.witnessed
        tot["checks"] += t.stats.get("checks", 0)
        tot["sat"] += t.stats.get("sat", 0)
        tot["unsat"] += t.stats.get("unsat", 0)
        tot["solver_unknown"] += t.stats.get("unknown", 0)
        tot["solver_s"] += t.stats.get("solver_s", 0.0)
        tot["forks"] += t.stats.get("forks", 0)
        functions.update(getattr(t, "functions", []))
        inst = getattr(t, "installed", {}) or {}
        for s in inst.get("stubs", []):
            stubs[s["where"]] = s["contract"]
        for k, v in (inst.get("summaries") or {}).items():
            stubs["summary:" + k] = f"explored once per run from current source ({v.get('paths')} paths), replaced by its if-then-else term"
        if inst.get("np"):
            stubs["module-global np -> symnp proxy"] = "zeros/ones/eye/array build object arrays; np.random.randint/choice draw a fresh symbolic outcome constrained by the call's contract; in modules: " + ", ".join(m.replace("graphiq.", "") for m in inst["np"])
        if inst.get("int"):
            stubs["module-global int -> symbolic truncation"] = ", ".join(inst["int"])
        # a path is non-trivial if it discharged at least one solver obligation (not constant-folded)
        nontrivial += t.paths if t.obligations else 0
        isp = h.input_space()
        jobs.append({
            "harness": h.name,
            "bounds": getattr(h, "bounds", None) or h.params,
            "paths": t.paths,
            "input_space_log2": isp,
            "paths_vs_input_space": (f"{t.paths} paths for 2^{isp} input assignments (before assumptions)" if isp is not None else None),
            "obligations": t.obligations,
            "discharged": t.discharged,
            "violations": len(t.violations),
            "inconclusive_paths": t.inconclusive,
            "outside_claim_paths": getattr(t, "outside", 0),
            "outside_claim_reasons": getattr(t, "outside_reasons", {}),
            "truncated": t.truncated,
            "partial_by_design": bool(getattr(h, "partial_ok", False)),
            "solver": {k: (round(v, 3) if isinstance(v, float) else v) for k, v in t.stats.items()},
            "wall_s": round(getattr(t, "wall_s", 0.0), 2),
            "obligation_kinds": dict(sorted(t.obl_names.items(), key=lambda kv: -kv[1])[:12]),
            "info": t.info,
        })
        for s in t.samples[:2]:
            if len(samples) < 12:
                samples.append({"harness": h.name, **s})
    viol_docs = []
    for h, v in all_viol[:40]:
        viol_docs.append({"harness": h.name, "obligation": v["name"], "detail": v["detail"],
                          "reproduced_on_real_code": v.get("reproduced"), "real_code_failures": v.get("real_code_failures"),
                          "known_finding": v.get("known"), "replay": v.get("replay") if not v.get("known") else None,
                          "model_inputs_nonzero": {k: val for k, val in (v["model"] or {}).get("inputs", {}).items() if val not in (0, [0, 1])},
                          "rng": (v["model"] or {}).get("rng")})
    if not samples:
        samples = [{"note": "no path produced obligations"}]
    doc = {
        "property_id": prop,
        "tier": tier,
        "seed": seed,
        "level": "other",
        "coverage": {
            "explanation": getattr(mod, "EXPLANATION", "") + (" [PARTIAL RUN: --only filter]" if partial else ""),
            "evaluations": max(tot["paths"], 1) if tot["paths"] else 0,
            "distinct_nontrivial": nontrivial,
            "rule": "one evaluation = one explored path of the real code under a distinct decision prefix (path conditions are pairwise disjoint, so paths are distinct by construction); non-trivial = the path posed at least one obligation to the solver",
            "samples": samples,
            "obligations": tot["obligations"],
            "discharged": tot["discharged"],
            "solver_queries": {"total": tot["checks"], "sat": tot["sat"], "unsat": tot["unsat"], "unknown": tot["solver_unknown"]},
            "solver_seconds_cpu": round(tot["solver_s"], 2),
            "paths": tot["paths"],
            "infeasible_prefixes": tot["infeasible"],
            "inconclusive_paths": tot["inconclusive"],
            "reachability_witnesses_sat": tot["witnessed"],
            "forks": tot["forks"],
            "functions_encoded": sorted(functions),
            "stubs": stubs,
            "bounds": getattr(mod, "BOUNDS", {}).get(tier),
            "outside_claim": getattr(mod, "OUTSIDE", None),
            "jobs": jobs,
            "violations_found": viol_docs,
            "known_findings_matched": n_known,
            "problems": [f"{a}: {b.splitlines()[0] if b else b}" for a, b in problems][:40],
            "exhaustive": False,
            "self_checks": extra or {},
            "repo_head": __import__("vf.main", fromlist=["git_head"]).git_head("/repo"),
            "checker_cmd": f"./check {prop} --tier {tier}",
            "trusted_base": ["z3 5.1.0 (python wheel)", "CPython 3.12 / numpy object-array semantics", "symnp engine (/verif/symnp)", "oracles (/verif/oracle), derived numerically from textbook matrices"],
        },
        "assumptions": getattr(mod, "ASSUMPTIONS", []),
        "wall_s": round(wall, 2),
        "violations": n_viol,
    }
    path = os.path.join(runner.EVIDENCE_DIR, f"{prop}.json")
    with open(path, "w") as f:
        json.dump(doc, f, indent=1, default=str)
    return path
