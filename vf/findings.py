"""Predicates of the open known findings listed in /verif/known_findings.json.
Each takes (harness, violation dict with 'model'/'detail'/'name', text of the failures seen in the concrete replay)
and returns True iff this violation IS that finding: same call site and the characteristic input."""
from __future__ import annotations


def _graph_edges(model, tag="G"):
    e = {}
    for k, v in model.get("inputs", {}).items():
        if k.startswith(tag + "e_"):
            _, i, j = k.split("_")
            e[(int(i), int(j))] = int(v)
    return e


def _has_isolated_vertex(n, edges):
    deg = [0] * n
    for (i, j), v in edges.items():
        if v:
            deg[i] += 1
            deg[j] += 1
    return any(d == 0 for d in deg)


def f2_isolated_vertex(h, viol, ftxt):
    """TimeReversedSolver raises IndexError for a target with an isolated vertex"""
    if "IndexError" not in ftxt or "time_reversed_solver.py" not in ftxt:
        return False
    n = h.params["n"]
    return _has_isolated_vertex(n, _graph_edges(viol["model"]))


def _connected(n, edges):
    adj = {i: set() for i in range(n)}
    for (i, j), v in edges.items():
        if v:
            adj[i].add(j)
            adj[j].add(i)
    seen, todo = {0}, [0]
    while todo:
        x = todo.pop()
        for y in adj[x]:
            if y not in seen:
                seen.add(y)
                todo.append(y)
    return len(seen) == n


def _lc_solution_space_dim(n, e1, e2):
    """dimension of the GF(2) solution space of the Van den Nest linear system for (G1, G2): 4n - rank, computed
    here independently of graphiq (unknowns a_k, b_j, c_i, d_j; one equation per ordered pair (j, k))"""
    def adj(e):
        a = [[0] * n for _ in range(n)]
        for (i, j), v in e.items():
            a[i][j] = a[j][i] = int(v)
        return a

    g1, g2 = adj(e1), adj(e2)
    rows = []
    for j in range(n):
        for k in range(n):
            r = [0] * (4 * n)
            r[4 * k + 0] ^= g1[j][k]
            if j == k:
                r[4 * j + 1] ^= 1
            for i in range(n):
                r[4 * i + 2] ^= g1[i][j] & g2[i][k]
            r[4 * j + 3] ^= g2[j][k]
            rows.append(r)
    rank = 0
    for col in range(4 * n):
        piv = next((i for i in range(rank, len(rows)) if rows[i][col]), None)
        if piv is None:
            continue
        rows[rank], rows[piv] = rows[piv], rows[rank]
        for i in range(len(rows)):
            if i != rank and rows[i][col]:
                rows[i] = [x ^ y for x, y in zip(rows[i], rows[rank])]
        rank += 1
    return 4 * n - rank


def f4_disconnected_false_no(h, viol, ftxt):
    """is_lc_equivalent(mode='deterministic') answers False although a valid local Clifford exists, for a
    DISCONNECTED first graph whose solution space has dimension >= 5 (the 'sum of two basis vectors' shortcut).
    A false "no" for a connected graph, or with a solution space of dimension <= 4 (where every solution is
    enumerated), is NOT this finding and is reported as a violation."""
    if h.params.get("mode") != "deterministic":
        return False
    if not viol["name"].startswith("no-valid-local-Clifford-exists-when-answer-is-no"):
        return False
    n = h.params["n"]
    e1, e2 = _graph_edges(viol["model"], "A"), _graph_edges(viol["model"], "B")
    return (not _connected(n, e1)) and _lc_solution_space_dim(n, e1, e2) >= 5


def f4_constructed(h, viol, ftxt):
    """same finding F4 seen through the constructed-pairs harness (G2 = G or G2 = LC_v(G))"""
    if not viol["name"].startswith("equivalent-by-construction-but-answered-no"):
        return False
    n, v = h.params["n"], h.params["v"]
    e1 = _graph_edges(viol["model"], "G")
    e2 = dict(e1)
    if v >= 0:
        def has(i, j):
            return e1.get((min(i, j), max(i, j)), 0)
        for j in range(n):
            for k in range(j + 1, n):
                if j != v and k != v and has(v, j) and has(v, k):
                    e2[(j, k)] = 1 - e1.get((j, k), 0)
    return (not _connected(n, e1)) and _lc_solution_space_dim(n, e1, e2) >= 5


F16_LABELS = ["IZIZY", "XXYXI", "YYYIX", "ZIZII", "ZZIII"]


def f16_inverse_circuit_5q(h, viol, ftxt):
    """inverse_circuit does not reach |0...0> for the 5-qubit Pauli pattern F16_LABELS (any signs): the greedy pivot
    choice of its first Hadamard block leaves the last column without a pivot"""
    return list(h.params.get("labels", [])) == F16_LABELS
