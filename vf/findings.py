"""Predicates of the known findings listed in /verif/known_findings.json (matched by site + input)."""
