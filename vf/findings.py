"""Predicates of the open known findings listed in /verif/known_findings.json.
Each takes (harness, violation dict with 'model'/'detail'/'name', text of the failures seen in the concrete replay)
and returns True iff this violation IS that finding: same call site and the characteristic input."""
from __future__ import annotations


def _graph_edges(model, tag="G"):
    e = {}
    for k, v in model.get("inputs", {}).items():
        if k.startswith(tag + "e_"):
            _, i, j = k.split("_")
            e[(int(i), int(j))] = int(v)
    return e


def _has_isolated_vertex(n, edges):
    deg = [0] * n
    for (i, j), v in edges.items():
        if v:
            deg[i] += 1
            deg[j] += 1
    return any(d == 0 for d in deg)


def f2_isolated_vertex(h, viol, ftxt):
    """TimeReversedSolver raises IndexError for a target with an isolated vertex"""
    if "IndexError" not in ftxt or "time_reversed_solver.py" not in ftxt:
        return False
    n = h.params["n"]
    return _has_isolated_vertex(n, _graph_edges(viol["model"]))


def _connected(n, edges):
    adj = {i: set() for i in range(n)}
    for (i, j), v in edges.items():
        if v:
            adj[i].add(j)
            adj[j].add(i)
    seen, todo = {0}, [0]
    while todo:
        x = todo.pop()
        for y in adj[x]:
            if y not in seen:
                seen.add(y)
                todo.append(y)
    return len(seen) == n


def f4_disconnected_false_no(h, viol, ftxt):
    """is_lc_equivalent(mode='deterministic') answers False although a valid local Clifford exists, for a
    DISCONNECTED first graph (the 'sum of two basis vectors' shortcut when the solution space has dimension >= 5)"""
    if h.params.get("mode") != "deterministic":
        return False
    if not viol["name"].startswith("no-valid-local-Clifford-exists-when-answer-is-no"):
        return False
    n = h.params["n"]
    return not _connected(n, _graph_edges(viol["model"], "A"))
