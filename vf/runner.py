"""
Job runner: explores every harness of a property (process pool for small harnesses, work-sharing explorer for
large ones), replays solver models on unpatched code, matches known findings, writes the evidence file and
prints VIOLATION / KNOWN-FINDING lines.   Exit codes: 0 held, 1 violation, 2 inconclusive / harness error.
"""
from __future__ import annotations

import hashlib
import importlib
import json
import multiprocessing as mp
import os
import subprocess
import sys
import time
import traceback

VERIF = os.path.dirname(os.path.dirname(os.path.abspath(__file__)))
REPLAY_DIR = os.path.join(VERIF, "replays")
EVIDENCE_DIR = os.path.join(VERIF, "evidence")
KNOWN_FILE = os.path.join(VERIF, "known_findings.json")
RUN_TAG = ""

_JOBS = []


def _profile_functions(fn):
    """run fn() recording graphiq functions entered (for the evidence file)"""
    seen = set()

    def prof(frame, event, arg):
        if event == "call":
            f = frame.f_code.co_filename
            if "/graphiq/" in f:
                seen.add(f.split("/graphiq/", 1)[1].replace(".py", "").replace("/", ".") + "." + frame.f_code.co_name)

    sys.setprofile(prof)
    try:
        r = fn()
    finally:
        sys.setprofile(None)
    return r, seen


def _run_serial_job(idx):
    from symnp import engine, install as sinstall

    h, opts = _JOBS[idx]
    t0 = time.time()
    try:
        h.install()
        # first path under the profiler to record the functions actually encoded
        S, spec = engine._make_session(h, opts.get("seed", 0), opts.get("solver_timeout_ms", 120000))
        S.smt2_budget = opts.get("smt2_samples", 0)
        totals = engine.Totals()
        (rest), funcs = _profile_functions(lambda: engine._dfs(S, h, spec, [[]], totals, max_paths=1))
        deadline = t0 + opts["time_budget"] if opts.get("time_budget") else None
        rest = engine._dfs(S, h, spec, rest, totals, opts.get("max_paths"), deadline)
        if rest:
            totals.truncated = True
        for k, v in S.stats.items():
            totals.stats[k] = totals.stats.get(k, 0) + v
        totals.wall_s = time.time() - t0
        totals.functions = sorted(funcs)
        totals.installed = json.loads(json.dumps(sinstall.INSTALLED, default=str))
        totals.smt2_samples = [(n, t) for n, t in S.smt2_samples if len(t) < 400000]
        try:
            totals.concrete_samples = engine.sample_models(S, k=opts.get("concrete_samples", 2), seed=opts.get("seed", 0))
        except BaseException:  # noqa
            totals.concrete_samples = []
        return idx, totals, None
    except BaseException as e:  # noqa
        return idx, None, f"{type(e).__name__}: {e}\n{traceback.format_exc()}"


def _run_parallel_job(h, opts, workers):
    from symnp import engine, install as sinstall

    # functions encoded: one profiled path in a short-lived child (keeps the coordinator free of z3 state)
    ctx = mp.get_context("fork")
    q = ctx.Queue()

    def probe():
        try:
            h.install()
            S, spec = engine._make_session(h, 0, opts.get("solver_timeout_ms", 120000))
            tot = engine.Totals()
            _, funcs = _profile_functions(lambda: engine._dfs(S, h, spec, [[]], tot, max_paths=1))
            q.put((sorted(funcs), json.loads(json.dumps(sinstall.INSTALLED, default=str))))
        except BaseException as e:  # noqa
            q.put((["<probe failed: %s>" % e], {}))

    p = ctx.Process(target=probe)
    p.start()
    try:
        funcs, installed = q.get(timeout=600)
    except Exception:
        funcs, installed = ["<probe timeout>"], {}
    p.join(5)
    if p.is_alive():
        p.terminate()
    totals = engine.explore_parallel(h, workers=workers, seed=opts.get("seed", 0),
                                     solver_timeout_ms=opts.get("solver_timeout_ms", 120000),
                                     time_budget=opts.get("time_budget"), max_paths=opts.get("max_paths"),
                                     chunk_paths=opts.get("chunk_paths", 32), chunk_s=opts.get("chunk_s", 20.0))
    totals.functions = funcs
    totals.installed = installed
    return totals


def preimport():
    """import every graphiq module the harnesses instrument *before* forking workers (imports are the slow part);
    nothing is patched and no z3 object is created in the coordinator"""
    import importlib
    from symnp import install as sinstall

    for m in sinstall.NP_MODULES + sinstall.DM_MODULES:
        importlib.import_module(m)


def run_jobs(jobs, workers=16, log=print):
    """jobs: list[(harness, opts)] -> list[(harness, totals|None, error|None)]"""
    global _JOBS
    preimport()
    serial = [(h, o) for h, o in jobs if not getattr(h, "parallel", False)]
    par = [(h, o) for h, o in jobs if getattr(h, "parallel", False)]
    out = []
    if serial:
        serial.sort(key=lambda ho: -getattr(ho[0], "weight", 1))
        _JOBS = serial
        ctx = mp.get_context("fork")
        todo = list(range(len(serial)))
        running = {}  # idx -> (process, conn, t_start)

        def child(idx, conn):
            try:
                conn.send(_run_serial_job(idx))
            except BaseException as e:  # noqa
                try:
                    conn.send((idx, None, f"{type(e).__name__}: {e}"))
                except Exception:
                    pass
            finally:
                conn.close()
                os._exit(0)

        def report(h, totals, err):
            out.append((h, totals, err))
            if err:
                log(f"  [job] {h.name}: ERROR {err.splitlines()[0]}")
            else:
                log(f"  [job] {h.name}: paths={totals.paths} obligations={totals.obligations} "
                    f"discharged={totals.discharged} violations={len(totals.violations)} "
                    f"inconclusive={totals.inconclusive}{' TRUNCATED' if totals.truncated else ''} "
                    f"{totals.wall_s:.1f}s")

        while todo or running:
            while todo and len(running) < workers:
                idx = todo.pop(0)
                pc, cc = ctx.Pipe(duplex=False)
                p = ctx.Process(target=child, args=(idx, cc), daemon=True)
                p.start()
                cc.close()
                running[idx] = (p, pc, time.time())
            done = []
            for idx, (p, pc, ts) in running.items():
                h, o = serial[idx]
                hard = (o.get("time_budget") or 3600) * 1.5 + 120
                if pc.poll(0):
                    try:
                        _, totals, err = pc.recv()
                    except (EOFError, OSError) as e:
                        totals, err = None, f"worker died without a result ({type(e).__name__})"
                    report(h, totals, err)
                    done.append(idx)
                elif not p.is_alive():
                    report(h, None, f"worker exited with code {p.exitcode} without a result")
                    done.append(idx)
                elif time.time() - ts > hard:
                    p.terminate()
                    report(h, None, f"worker exceeded its hard time limit of {hard:.0f}s")
                    done.append(idx)
            for idx in done:
                p, pc, _ = running.pop(idx)
                pc.close()
                p.join(timeout=5)
                if p.is_alive():
                    p.kill()
            if not done:
                time.sleep(0.02)
    for h, o in par:
        try:
            totals = _run_parallel_job(h, o, workers)
            out.append((h, totals, None))
            log(f"  [job] {h.name}: paths={totals.paths} obligations={totals.obligations} "
                f"discharged={totals.discharged} violations={len(totals.violations)} "
                f"inconclusive={totals.inconclusive}{' TRUNCATED' if totals.truncated else ''} {totals.wall_s:.1f}s")
        except BaseException as e:  # noqa
            out.append((h, None, f"{type(e).__name__}: {e}"))
            log(f"  [job] {h.name}: ERROR {e}")
    return out


# ------------------------------------------------------------------------------------------------------
def harness_ref(h):
    return {"module": type(h).__module__, "cls": type(h).__name__, "params": h.params}


def load_harness(ref):
    mod = importlib.import_module(ref["module"])
    return getattr(mod, ref["cls"])(**ref["params"])


def write_replay(prop, h, viol):
    os.makedirs(os.path.join(REPLAY_DIR, prop, RUN_TAG), exist_ok=True)
    doc = {"property": prop, "harness": harness_ref(h), "obligation": viol["name"], "detail": viol["detail"],
           "model": viol["model"]}
    blob = json.dumps(doc, sort_keys=True)
    path = os.path.join(REPLAY_DIR, prop, RUN_TAG, hashlib.sha1(blob.encode()).hexdigest()[:12] + ".json")
    with open(path, "w") as f:
        json.dump(doc, f, indent=1, sort_keys=True)
    return path


def replay_file(path, verbose=True):
    """Concrete replay against *unpatched* graphiq (this process must not have installed the proxies)."""
    from symnp import engine

    doc = json.load(open(path))
    h = load_harness(doc["harness"])
    reproduced, failures, err = engine.replay_concrete(h, doc["model"])
    if verbose:
        print(f"replay {path}: property={doc['property']} harness={h.name}")
        print(f"  solver-reported obligation: {doc['obligation']} ({doc['detail']})")
        if err:
            print(f"  harness error: {err}")
        for name, detail in failures[:10]:
            print(f"  FAILED on real code: {name} {detail or ''}")
        print("  REPRODUCED" if reproduced else "  NOT-REPRODUCED")
    return reproduced, failures, err


def replay_subprocess(path):
    env = dict(os.environ, PYTHONDONTWRITEBYTECODE="1")
    r = subprocess.run([sys.executable, "-m", "vf.main", "--replay", path], cwd=VERIF, env=env, capture_output=True,
                       text=True, timeout=1800)
    return r.returncode == 0, r.stdout + r.stderr


# ------------------------------------------------------------------------------------------------------
def load_known():
    if not os.path.exists(KNOWN_FILE):
        return []
    return json.load(open(KNOWN_FILE)).get("findings", [])


def match_known(prop, h, viol, failures_text):
    """A violation is a known finding iff an *open* entry for this property names this harness class and its
    predicate (vf.findings.<predicate>) accepts the failing input and site."""
    from vf import findings

    for k in load_known():
        if k.get("status") != "open" or prop not in k.get("properties", [k.get("property")]):
            continue
        if k.get("harness") and type(h).__name__ not in k["harness"]:
            continue
        pred = getattr(findings, k["predicate"])
        try:
            if pred(h, viol, failures_text):
                return k
        except Exception:
            continue
    return None


# ------------------------------------------------------------------------------------------------------
def cross_solver_check(samples, workdir, timeout=60, log=print):
    """Re-decide dumped obligations (SMT-LIB2: assumptions /\ path condition /\ not claim; expected `unsat`) with
    the other installed solvers.  Returns (stats dict, list of disagreement messages)."""
    import shutil
    import tempfile

    solvers = []
    if shutil.which("z3") and os.path.exists("/usr/bin/z3"):
        solvers.append(("z3-4.8.12", ["/usr/bin/z3", "-smt2", f"-T:{timeout}"]))
    if shutil.which("cvc5"):
        solvers.append(("cvc5", ["cvc5", f"--tlimit={timeout * 1000}"]))
    stats = {name: {"unsat": 0, "sat": 0, "unknown_or_timeout": 0, "error": 0} for name, _ in solvers}
    bad = []
    d = tempfile.mkdtemp(prefix="smt2_", dir=workdir)
    try:
        for i, (hname, oname, text) in enumerate(samples):
            f = os.path.join(d, f"q{i}.smt2")
            with open(f, "w") as fh:
                fh.write(text if "(check-sat)" in text else text + "\n(check-sat)\n")
            for name, cmd in solvers:
                try:
                    r = subprocess.run(cmd + [f], capture_output=True, text=True, timeout=timeout + 20)
                    out = (r.stdout + r.stderr).strip()
                except subprocess.TimeoutExpired:
                    out = "timeout"
                first = out.splitlines()[0].strip() if out else ""
                if "(error" in out:
                    stats[name]["error"] += 1  # treated as inconclusive for that solver (encoding not accepted)
                elif first == "unsat":
                    stats[name]["unsat"] += 1
                elif first == "sat":
                    stats[name]["sat"] += 1
                    bad.append(f"{name} answers sat on an obligation z3 5.1 discharged: {hname} / {oname}")
                else:
                    stats[name]["unknown_or_timeout"] += 1
    finally:
        shutil.rmtree(d, ignore_errors=True)
    return stats, bad


def crosshair_check(path, timeout=40):
    """second symbolic engine on pure-python leaf functions; every condition must be 'Confirmed over all paths'"""
    env = dict(os.environ, PYTHONDONTWRITEBYTECODE="1", PYTHONWARNINGS="ignore")
    try:
        r = subprocess.run([sys.executable, "-m", "crosshair", "check", "--report_all", f"--per_condition_timeout={timeout}", path],
                           cwd=VERIF, env=env, capture_output=True, text=True, timeout=timeout * 6 + 60)
    except subprocess.TimeoutExpired:
        return 0, ["crosshair timed out"]
    lines = [l for l in (r.stdout + r.stderr).splitlines() if path.split("/")[-1] in l]
    confirmed = sum(1 for l in lines if "Confirmed over all paths" in l)
    other = [l.split(": ", 1)[-1] for l in lines if "Confirmed over all paths" not in l]
    return confirmed, other
