"""
Helpers shared by the property harnesses: harness base class, symbolic tableau builders, Inv assumption.
"""
from __future__ import annotations

import itertools

import numpy as np

from oracle import pauli as O
from symnp import install as sinstall
from symnp.sym import b_and, b_or, b_not, b_xor, b_iff, b_implies


class Harness:
    """Base class.  Sub-classes define `declare(S)` and `body(S, spec)`; `params` must be JSON-serialisable and
    sufficient to rebuild the harness (replay)."""

    needs_dm = False
    np_modules = None
    weight = 1  # rough relative cost, used to order jobs
    parallel = False  # explore with the work-sharing explorer instead of one process

    def __init__(self, **params):
        self.params = params
        for k, v in params.items():
            setattr(self, k, v)

    @property
    def name(self):
        ps = ",".join(f"{k}={v}" for k, v in self.params.items())
        return f"{type(self).__name__}({ps})"

    def install(self):
        sinstall.install(np_modules=self.np_modules, dm=self.needs_dm)

    def input_space(self):
        """log2 of the number of symbolic input assignments before assumptions (for evidence), or None"""
        return None


def cells(a):
    """2-D / 1-D array -> nested python lists of cells (works for SymArray and ndarray)"""
    a = np.asarray(a) if not isinstance(a, np.ndarray) else a
    if a.ndim == 1:
        return [a[i] for i in range(a.shape[0])]
    return [[a[i, j] for j in range(a.shape[1])] for i in range(a.shape[0])]


def declare_clifford(S, n, tag="T", destab_iphase=True):
    """fully symbolic Clifford tableau: 2n x 2n table bits, 2n sign bits, iphase (destabilizer half symbolic,
    stabilizer half 0)"""
    table = S.bits(f"{tag}t", 2 * n, 2 * n)
    phase = S.bits(f"{tag}r", 2 * n)
    if destab_iphase:
        ip = S.bits(f"{tag}i", n)
        iphase = np.concatenate([np.asarray(ip, dtype=object), np.zeros(n, dtype=object)]) if S.symbolic else \
            np.concatenate([ip, np.zeros(n, dtype=int)])
        if S.symbolic:
            from symnp.arr import SymArray
            iphase = iphase.view(SymArray)
    else:
        iphase = None
    return {"n": n, "table": table, "phase": phase, "iphase": iphase}


def assume_inv(S, spec):
    n = spec["n"]
    iph = spec["iphase"] if spec["iphase"] is not None else [0] * (2 * n)
    for name, c in O.inv_conditions(cells(spec["table"]), cells(spec["phase"]), list(iph), n, bits_check=False):
        S.assume(c)


def fresh_clifford(spec):
    from graphiq.backends.stabilizer.clifford_tableau import CliffordTableau

    T = CliffordTableau(spec["table"].copy(), spec["phase"].copy())
    if spec["iphase"] is not None:
        T.iphase = spec["iphase"].copy()
    return T


def pre_rows(spec):
    n = spec["n"]
    iph = spec["iphase"] if spec["iphase"] is not None else [0] * (2 * n)
    rows = O.rows_of(cells(spec["table"]), cells(spec["phase"]), n, list(iph))
    return rows[:n], rows[n:]  # destabilizers, stabilizers


def post_rows(T):
    n = T.n_qubits
    rows = O.rows_of(cells(T.table), cells(T.phase), n, cells(T.iphase))
    return rows[:n], rows[n:]


def prove_inv(S, T, tag="inv-after"):
    n = T.n_qubits
    ok = True
    for name, c in O.inv_conditions(cells(T.table), cells(T.phase), cells(T.iphase), n):
        if S.prove(f"{tag}:{name}", c) is not True:
            ok = False
    return ok


def declare_stabilizer(S, n, tag="S"):
    table = S.bits(f"{tag}t", n, 2 * n)
    phase = S.bits(f"{tag}r", n)
    return {"n": n, "table": table, "phase": phase}


def assume_valid_stabilizer(S, spec):
    n = spec["n"]
    rows = O.rows_of(cells(spec["table"]), cells(spec["phase"]), n)
    S.assume(O.commute_all(rows))
    S.assume(O.independent(rows))


def fresh_stabilizer(spec):
    from graphiq.backends.stabilizer.tableau import StabilizerTableau

    return StabilizerTableau(spec["table"].copy(), spec["phase"].copy())


def stab_rows(spec_or_tab):
    if isinstance(spec_or_tab, dict):
        n = spec_or_tab["n"]
        return O.rows_of(cells(spec_or_tab["table"]), cells(spec_or_tab["phase"]), n)
    t = spec_or_tab
    return O.rows_of(cells(t.table), cells(t.phase), t.n_qubits)


def declare_graph(S, n, tag="G"):
    """symbolic simple graph: n(n-1)/2 edge bits -> symmetric adjacency with zero diagonal"""
    e = {}
    for i in range(n):
        for j in range(i + 1, n):
            e[(i, j)] = S.bit(f"{tag}e_{i}_{j}")
    if S.symbolic:
        from symnp.arr import SymArray
        adj = np.zeros((n, n), dtype=object).view(SymArray)
    else:
        adj = np.zeros((n, n), dtype=int)
    for (i, j), b in e.items():
        adj[i, j] = b
        adj[j, i] = b
    return {"n": n, "adj": adj, "edges": e}


def is_bit_claim(c):
    return b_or(O.eq_bits(c, 0), O.eq_bits(c, 1))


# ------------------------------------------------------------------------------------------------------
# density matrices
# ------------------------------------------------------------------------------------------------------
def declare_rho(S, n, tag="rho", normalised=True):
    """symbolic Hermitian N x N matrix (N = 2^n): real diagonal >= 0 with trace 1, complex off-diagonal entries with
    |Re|, |Im| <= 1.  (Positivity beyond the diagonal is not assumed: every checked identity is linear in rho, so it
    holds for all Hermitian matrices in the box, a superset of the density matrices.)"""
    N = 1 << n
    if S.symbolic:
        from symnp.arr import SymArray
        from symnp.sym import SymComplex
        import z3
        rho = np.empty((N, N), dtype=object)
        tr = 0
        for i in range(N):
            d = S.real(f"{tag}_d{i}")
            S.assume(d >= 0)
            S.assume(d <= 1)
            tr = tr + d
            rho[i, i] = SymComplex(d.e, z3.RealVal(0))
        for i in range(N):
            for j in range(i + 1, N):
                c = S.complex_(f"{tag}_c{i}_{j}")
                for part in (c.real, c.imag):
                    S.assume(part <= 1)
                    S.assume(part >= -1)
                rho[i, j] = c
                rho[j, i] = c.conjugate()
        if normalised:
            S.assume(tr == 1)
        return {"n": n, "rho": rho.view(SymArray)}
    rho = np.zeros((N, N), dtype=complex)
    for i in range(N):
        rho[i, i] = S.real(f"{tag}_d{i}")
    for i in range(N):
        for j in range(i + 1, N):
            c = S.complex_(f"{tag}_c{i}_{j}")
            rho[i, j] = c
            rho[j, i] = np.conj(c)
    return {"n": n, "rho": rho}


def rho_cells(a):
    a = a if isinstance(a, np.ndarray) else np.asarray(a)
    return [[a[i, j] for j in range(a.shape[1])] for i in range(a.shape[0])]


def dm_state(rho, n):
    """a real QuantumState('dm') holding the given matrix (constructor bypassed: is_psd / normalisation of the
    constructor need LAPACK; 'the input is a valid state' is the harness precondition)"""
    from graphiq.state import QuantumState

    qs = QuantumState(n, rep_type="dm")
    qs.rep_data.data = rho
    return qs


def declare_pinned_stabilizer(S, labels, tag="S"):
    """stabilizer tableau whose Pauli pattern is the given list of generator strings (concrete x/z bits) and whose
    signs are symbolic -- used to pin a known finding to its specific input"""
    n = len(labels)
    spec = declare_stabilizer(S, n, tag=tag)
    for i, lab in enumerate(labels):
        for j, ch in enumerate(lab):
            xb, zb = {"I": (0, 0), "X": (1, 0), "Y": (1, 1), "Z": (0, 1)}[ch]
            S.assume(O.eq_bits(spec["table"][i, j], xb))
            S.assume(O.eq_bits(spec["table"][i, n + j], zb))
    return spec
